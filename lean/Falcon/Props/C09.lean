import Falcon.Model.Sampler
import Mathlib.Data.Finset.Card
import Mathlib.Order.Interval.Finset.Nat

/-!
# C09 — the integer Gaussian sampler: integer building blocks

Theorems about the integer cores of samplerz.rs (the parts that are pure integer arithmetic), for all inputs.
The floating-point glue (`floor`, `x / ln 2`, `2^63·x`) and the closeness of the output law to the discrete
Gaussian are not decided here (see DESIGN.md §9); the glue is compared bit-for-bit with the Rust code on
every run, the specification's blocks are re-implemented independently in the harness.
-/
namespace Falcon.Props.C09
open Falcon Falcon.Sampler

/-- the table in samplerz.rs is the specification's RCDT (Table 3.1) -/
theorem rcdt_is_spec : Gen.rcdt = [
    3024686241123004913666, 1564742784480091954050, 636254429462080897535, 199560484645026482916,
    47667343854657281903, 8595902006365044063, 1163297957344668388, 117656387352093658, 8867391802663976,
    496969357462633, 20680885154299, 638331848991, 14602316184, 247426747, 3104126, 28824, 198, 1] := rfl

/-- the constants of the polynomial approximation are those of the specification (FACCT) -/
theorem expC_is_spec : Gen.expC = [
    0x00000004741183A3, 0x00000036548CFC06, 0x0000024FDCBF140A, 0x0000171D939DE045, 0x0000D00CF58F6F84,
    0x000680681CF796E3, 0x002D82D8305B0FEA, 0x011111110E066FD0, 0x0555555555070F00, 0x155555555581FF00,
    0x400000000002B400, 0x7FFFFFFFFFFF4800, 0x8000000000000000] := rfl

/-- the comparison loop visits the shifts 56, 48, …, 8: exactly the 7 bytes it is given -/
theorem ber_shifts : berShifts = [56, 48, 40, 32, 24, 16, 8] := by decide

def decreasing : List Nat → Bool
  | a :: b :: rest => decide (b < a) && decreasing (b :: rest)
  | _ => true

theorem rcdt_decreasing : decreasing Gen.rcdt = true := by decide

theorem decreasing_tail (a : Nat) (rest : List Nat) (h : decreasing (a :: rest) = true) : decreasing rest = true := by
  cases rest with
  | nil => rfl
  | cons b r => simp only [decreasing, Bool.and_eq_true] at h; exact h.2

theorem decreasing_below : ∀ (rest : List Nat) (a : Nat), decreasing (a :: rest) = true → ∀ x ∈ rest, x < a := by
  intro rest
  induction rest with
  | nil => intro a _ x hx; simp at hx
  | cons b r ih =>
    intro a hd x hx
    simp only [decreasing, Bool.and_eq_true, decide_eq_true_eq] at hd
    rcases List.mem_cons.mp hx with h | h
    · rw [h]; exact hd.1
    · have := ih b hd.2 x h
      omega

/-- for a strictly decreasing table, "more than k entries exceed u" ⇔ "entry k exceeds u" -/
theorem count_gt_iff : ∀ (l : List Nat), decreasing l = true → ∀ (u k : Nat), k < l.length →
    ((l.filter (fun r => decide (u < r))).length > k ↔ u < l.getD k 0) := by
  intro l
  induction l with
  | nil => intro _ u k hk; simp at hk
  | cons a rest ih =>
    intro hd u k hk
    have hrest := decreasing_tail a rest hd
    have hbelow := decreasing_below rest a hd
    simp only [List.filter_cons]
    by_cases hu : u < a
    · simp only [hu, decide_true, if_true, List.length_cons]
      cases k with
      | zero => simp [hu]
      | succ k =>
        have := ih hrest u k (by simpa using hk)
        simp only [List.getD_cons_succ]
        omega
    · simp only [hu, decide_false]
      have hnone : rest.filter (fun r => decide (u < r)) = [] := by
        rw [List.filter_eq_nil_iff]
        intro x hx
        have := hbelow x hx
        simp; omega
      simp only [hnone, Bool.false_eq_true, if_false, List.length_nil]
      constructor
      · intro h; omega
      · intro h
        cases k with
        | zero => simp at h; omega
        | succ k =>
          simp only [List.getD_cons_succ] at h
          have hk' : k < rest.length := by simpa using hk
          have hx : rest.getD k 0 ∈ rest := by
            have : rest.getD k 0 = rest[k] := by simp [List.getD_eq_getElem?_getD, hk']
            rw [this]; exact List.getElem_mem hk'
          have := hbelow _ hx
          omega

/-- **BaseSampler, exact output law**: the result exceeds k exactly when u < RCDT[k]; hence
    `#{u < 2^72 : base(u) > k} = RCDT[k]`, the cumulative distribution the specification tabulates -/
theorem base_sampler_gt_iff (u k : Nat) (hk : k < 18) :
    baseSamplerU u > k ↔ u < Gen.rcdt.getD k 0 :=
  count_gt_iff Gen.rcdt rcdt_decreasing u k hk

theorem rcdt_le_two72 : ∀ k, k < 18 → Gen.rcdt.getD k 0 ≤ 2 ^ 72 := by decide

/-- **the exact output law as a count**: among the 2^72 equally likely values of the nine random bytes, exactly RCDT[k]
    give a result above k (k = 0 … 17) — the cumulative distribution the specification tabulates, so under uniform bytes
    P[base > k] = RCDT[k] / 2^72 exactly -/
theorem base_sampler_law (k : Nat) (hk : k < 18) :
    ((Finset.range (2 ^ 72)).filter (fun u => baseSamplerU u > k)).card = Gen.rcdt.getD k 0 := by
  have hle := rcdt_le_two72 k hk
  have : (Finset.range (2 ^ 72)).filter (fun u => baseSamplerU u > k) = Finset.range (Gen.rcdt.getD k 0) := by
    ext u
    simp only [Finset.mem_filter, Finset.mem_range, base_sampler_gt_iff u k hk]
    omega
  rw [this, Finset.card_range]

/-- … and the probabilities of the individual values: #{u : base(u) = k + 1} = RCDT[k] − RCDT[k+1] for k = 0 … 16 -/
theorem base_sampler_point_law (k : Nat) (hk : k + 1 < 18) :
    ((Finset.range (2 ^ 72)).filter (fun u => baseSamplerU u = k + 1)).card = Gen.rcdt.getD k 0 - Gen.rcdt.getD (k + 1) 0 := by
  have h1 := rcdt_le_two72 k (by omega)
  have hdec : Gen.rcdt.getD (k + 1) 0 ≤ Gen.rcdt.getD k 0 := by
    have : ∀ j, j < 17 → Gen.rcdt.getD (j + 1) 0 ≤ Gen.rcdt.getD j 0 := by decide
    exact this k (by omega)
  have : (Finset.range (2 ^ 72)).filter (fun u => baseSamplerU u = k + 1) =
      Finset.Ico (Gen.rcdt.getD (k + 1) 0) (Gen.rcdt.getD k 0) := by
    ext u
    have a := base_sampler_gt_iff u k (by omega)
    have b := base_sampler_gt_iff u (k + 1) hk
    simp only [Finset.mem_filter, Finset.mem_range, Finset.mem_Ico]
    omega
  rw [this, Nat.card_Ico]

/-- the result is in {0, …, 18} -/
theorem base_sampler_range (u : Nat) : baseSamplerU u ≤ 18 := by
  unfold baseSamplerU
  exact Nat.le_trans (List.length_filter_le _ _) (by decide)

/-- **BerExp comparison never indexes past its 7 bytes** (the former 2^-56 panic), for every threshold -/
theorem ber_loop_total (z : Nat) (bytes : List Nat) (h : bytes.length = 7) : ∃ w, berLoop z berShifts bytes = .ok w := by
  rw [ber_shifts]
  match bytes, h with
  | [b0, b1, b2, b3, b4, b5, b6], _ =>
    simp only [berLoop]
    repeat' (first | exact ⟨_, rfl⟩ | split)

/-- … and is the lexicographic comparison: on a tie of all 7 bytes the result is "not below" -/
theorem ber_loop_tie (z : Nat) : berLoop z [56, 48, 40, 32, 24, 16, 8]
    [z / 2 ^ 56 % 256, z / 2 ^ 48 % 256, z / 2 ^ 40 % 256, z / 2 ^ 32 % 256, z / 2 ^ 24 % 256, z / 2 ^ 16 % 256, z / 2 ^ 8 % 256]
    = .ok 0 := by
  simp [berLoop]

/-- **BerExp's lazy comparison is one integer comparison**: reading the 7 random bytes as a big-endian 56-bit number B,
    the loop reports "below" exactly when B < ⌊z / 2^8⌋ mod 2^56 (bits 8 … 63 of the 64-bit threshold) — for every z and
    every 7 bytes.  Under uniform bytes the acceptance probability is therefore exactly (⌊z/256⌋ mod 2^56) / 2^56. -/
theorem ber_loop_is_comparison (z b0 b1 b2 b3 b4 b5 b6 : Nat)
    (h0 : b0 < 256) (h1 : b1 < 256) (h2 : b2 < 256) (h3 : b3 < 256) (h4 : b4 < 256) (h5 : b5 < 256) (h6 : b6 < 256) :
    ∃ w, berLoop z [56, 48, 40, 32, 24, 16, 8] [b0, b1, b2, b3, b4, b5, b6] = .ok w ∧
      (w < 0 ↔ b0 * 2 ^ 48 + b1 * 2 ^ 40 + b2 * 2 ^ 32 + b3 * 2 ^ 24 + b4 * 2 ^ 16 + b5 * 2 ^ 8 + b6 < z / 2 ^ 8 % 2 ^ 56) := by
  simp only [berLoop]
  have e48 : (2 : Nat) ^ 48 = 281474976710656 := by decide
  have e40 : (2 : Nat) ^ 40 = 1099511627776 := by decide
  have e32 : (2 : Nat) ^ 32 = 4294967296 := by decide
  have e24 : (2 : Nat) ^ 24 = 16777216 := by decide
  have e16 : (2 : Nat) ^ 16 = 65536 := by decide
  have e8 : (2 : Nat) ^ 8 = 256 := by decide
  have e56 : (2 : Nat) ^ 56 = 72057594037927936 := by decide
  rw [e48, e40, e32, e24, e16, e8, e56]
  split
  · exact ⟨_, rfl, by omega⟩
  · split
    · exact ⟨_, rfl, by omega⟩
    · split
      · exact ⟨_, rfl, by omega⟩
      · split
        · exact ⟨_, rfl, by omega⟩
        · split
          · exact ⟨_, rfl, by omega⟩
          · split
            · exact ⟨_, rfl, by omega⟩
            · split
              · exact ⟨_, rfl, by omega⟩
              · exact ⟨_, rfl, by omega⟩

/-- the 7 bytes of a 56-bit number, most significant first -/
def bytes7 (B : Nat) : List Nat :=
  [B / 2 ^ 48 % 256, B / 2 ^ 40 % 256, B / 2 ^ 32 % 256, B / 2 ^ 24 % 256, B / 2 ^ 16 % 256, B / 2 ^ 8 % 256, B % 256]

/-- "the comparison loop reports below" -/
def berBelow (z B : Nat) : Prop := ∃ w, berLoop z [56, 48, 40, 32, 24, 16, 8] (bytes7 B) = .ok w ∧ w < 0

theorem berBelow_iff (z B : Nat) (hB : B < 2 ^ 56) : berBelow z B ↔ B < z / 2 ^ 8 % 2 ^ 56 := by
  have e48 : (2 : Nat) ^ 48 = 281474976710656 := by decide
  have e40 : (2 : Nat) ^ 40 = 1099511627776 := by decide
  have e32 : (2 : Nat) ^ 32 = 4294967296 := by decide
  have e24 : (2 : Nat) ^ 24 = 16777216 := by decide
  have e16 : (2 : Nat) ^ 16 = 65536 := by decide
  have e8 : (2 : Nat) ^ 8 = 256 := by decide
  have e56 : (2 : Nat) ^ 56 = 72057594037927936 := by decide
  obtain ⟨w, hw, hiff⟩ := ber_loop_is_comparison z (B / 2 ^ 48 % 256) (B / 2 ^ 40 % 256) (B / 2 ^ 32 % 256)
    (B / 2 ^ 24 % 256) (B / 2 ^ 16 % 256) (B / 2 ^ 8 % 256) (B % 256)
    (Nat.mod_lt _ (by decide)) (Nat.mod_lt _ (by decide)) (Nat.mod_lt _ (by decide)) (Nat.mod_lt _ (by decide))
    (Nat.mod_lt _ (by decide)) (Nat.mod_lt _ (by decide)) (Nat.mod_lt _ (by decide))
  have hsum : B / 2 ^ 48 % 256 * 2 ^ 48 + B / 2 ^ 40 % 256 * 2 ^ 40 + B / 2 ^ 32 % 256 * 2 ^ 32 + B / 2 ^ 24 % 256 * 2 ^ 24 +
      B / 2 ^ 16 % 256 * 2 ^ 16 + B / 2 ^ 8 % 256 * 2 ^ 8 + B % 256 = B := by
    rw [e56] at hB
    rw [e48, e40, e32, e24, e16, e8]
    omega
  rw [hsum] at hiff
  unfold berBelow bytes7
  constructor
  · rintro ⟨w', hw', hneg⟩
    rw [hw] at hw'
    have : w = w' := Res.ok.inj hw'
    subst this
    exact hiff.mp hneg
  · intro h
    exact ⟨w, hw, hiff.mpr h⟩

open Classical in
/-- **BerExp's acceptance law as a count**: of the 2^56 equally likely values of the 7 random bytes exactly
    ⌊z / 2^8⌋ mod 2^56 make the comparison loop report "below" -/
theorem ber_loop_count (z : Nat) :
    ((Finset.range (2 ^ 56)).filter (fun B => berBelow z B)).card = z / 2 ^ 8 % 2 ^ 56 := by
  have hT : z / 2 ^ 8 % 2 ^ 56 < 2 ^ 56 := Nat.mod_lt _ (by decide)
  have : (Finset.range (2 ^ 56)).filter (fun B => berBelow z B) = Finset.range (z / 2 ^ 8 % 2 ^ 56) := by
    ext B
    simp only [Finset.mem_filter, Finset.mem_range]
    constructor
    · rintro ⟨hB, hb⟩
      exact (berBelow_iff z B hB).mp hb
    · intro h
      have hB : B < 2 ^ 56 := by omega
      exact ⟨hB, (berBelow_iff z B hB).mpr h⟩
  rw [this, Finset.card_range]

/-- **the integer part of BerExp, exactly**: with e = ApproxExp's value (≥ 1), the shift s and 7 random bytes read as the
    big-endian number B, the result is `true` exactly when B < ⌊((2e − 1) >> min(s, 63)) / 2^8⌋ mod 2^56 — in both build
    modes; so under uniform bytes the acceptance probability is that threshold over 2^56 -/
theorem ber_exp_core_law (chk : Bool) (e s b0 b1 b2 b3 b4 b5 b6 : Nat) (he : 1 ≤ e)
    (h0 : b0 < 256) (h1 : b1 < 256) (h2 : b2 < 256) (h3 : b3 < 256) (h4 : b4 < 256) (h5 : b5 < 256) (h6 : b6 < 256) :
    berExpCore chk e s [b0, b1, b2, b3, b4, b5, b6] =
      .ok (decide (b0 * 2 ^ 48 + b1 * 2 ^ 40 + b2 * 2 ^ 32 + b3 * 2 ^ 24 + b4 * 2 ^ 16 + b5 * 2 ^ 8 + b6 <
        (e * 2 - 1) / 2 ^ min s 63 % 2 ^ 64 / 2 ^ 8 % 2 ^ 56)) := by
  unfold berExpCore
  have : e * 2 ≥ 1 := by omega
  simp only [this, if_true, Res.bind_ok]
  rw [ber_shifts]
  obtain ⟨w, hw, hiff⟩ := ber_loop_is_comparison ((e * 2 - 1) / 2 ^ min s 63 % 2 ^ 64) b0 b1 b2 b3 b4 b5 b6 h0 h1 h2 h3 h4 h5 h6
  rw [hw]
  simp only [Res.bind_ok, Res.pure_eq]
  congr 1
  exact decide_eq_decide.mpr hiff

/-- **ApproxExp core never underflows**: one Horner step with z < 2^63 and y ≤ cu < 2^64 -/
theorem horner_step_ok (chk : Bool) (z y cu : Nat) (hz : z < 2 ^ 63) (hy : y ≤ cu) (hcu : cu < 2 ^ 64) :
    ∃ y', hornerStep chk z y cu = .ok y' ∧ y' ≤ cu := by
  have hq : z * y / 2 ^ 63 ≤ y := by
    apply Nat.div_le_of_le_mul
    have : z * y ≤ 2 ^ 63 * y := Nat.mul_le_mul_right y (Nat.le_of_lt hz)
    exact this
  have hmod : z * y / 2 ^ 63 % 2 ^ 64 = z * y / 2 ^ 63 := Nat.mod_eq_of_lt (by omega)
  unfold hornerStep
  rw [hmod]
  refine ⟨((cu : Int) - ((z * y / 2 ^ 63 : Nat) : Int)).toNat, ?_, ?_⟩
  · exact arithU_ok chk 64 _ (by omega) (by
      have : ((2 : Int) ^ 64) = 18446744073709551616 := by decide
      rw [this]; have : (2:Nat) ^ 64 = 18446744073709551616 := by decide
      omega)
  · omega

def nondecreasing : List Nat → Bool
  | a :: b :: rest => decide (a ≤ b) && nondecreasing (b :: rest)
  | _ => true

theorem horner_ok (chk : Bool) (z : Nat) (hz : z < 2 ^ 63) : ∀ (cs : List Nat) (y : Nat),
    nondecreasing (y :: cs) = true → (∀ c ∈ cs, c < 2 ^ 64) → y < 2 ^ 64 →
    ∃ y', horner chk z cs y = .ok y' ∧ y' < 2 ^ 64 := by
  intro cs
  induction cs with
  | nil => intro y _ _ hy; exact ⟨y, rfl, hy⟩
  | cons cu rest ih =>
    intro y hnd hc hy
    simp only [nondecreasing, Bool.and_eq_true, decide_eq_true_eq] at hnd
    have hcu := hc cu (List.mem_cons_self ..)
    obtain ⟨y', h1, h2⟩ := horner_step_ok chk z y cu hz hnd.1 hcu
    simp only [horner, h1, Res.bind_ok]
    have hnd' : nondecreasing (y' :: rest) = true := by
      cases rest with
      | nil => rfl
      | cons c r =>
        have := hnd.2
        simp only [nondecreasing, Bool.and_eq_true, decide_eq_true_eq] at this ⊢
        exact ⟨by omega, this.2⟩
    exact ih y' hnd' (fun c hc' => hc c (List.mem_cons_of_mem _ hc')) (by omega)

/-- the whole integer core of ApproxExp is total on z < 2^63 (x in [0, 1)), in both build modes -/
theorem approx_exp_core_total (chk : Bool) (z zc : Nat) (hz : z < 2 ^ 63) : ∃ r, approxExpCore chk z zc = .ok r := by
  unfold approxExpCore
  rw [expC_is_spec]
  simp only []
  obtain ⟨y, hy, _⟩ := horner_ok chk z hz
    [0x00000036548CFC06, 0x0000024FDCBF140A, 0x0000171D939DE045, 0x0000D00CF58F6F84,
     0x000680681CF796E3, 0x002D82D8305B0FEA, 0x011111110E066FD0, 0x0555555555070F00, 0x155555555581FF00,
     0x400000000002B400, 0x7FFFFFFFFFFF4800, 0x8000000000000000] 0x00000004741183A3 (by decide) (by decide) (by decide)
  rw [hy]
  exact ⟨_, rfl⟩

/-- value of one Horner step -/
theorem horner_step_val (chk : Bool) (z y cu : Nat) (hz : z < 2 ^ 63) (hy : y ≤ cu) (hcu : cu < 2 ^ 64) :
    hornerStep chk z y cu = .ok (cu - z * y / 2 ^ 63) ∧ z * y / 2 ^ 63 ≤ y := by
  have hq : z * y / 2 ^ 63 ≤ y := by
    apply Nat.div_le_of_le_mul
    exact Nat.mul_le_mul_right y (Nat.le_of_lt hz)
  have hmod : z * y / 2 ^ 63 % 2 ^ 64 = z * y / 2 ^ 63 := Nat.mod_eq_of_lt (by omega)
  unfold hornerStep
  rw [hmod]
  refine ⟨?_, hq⟩
  rw [arithU_ok chk 64 _ (by omega) (by
      have : ((2 : Int) ^ 64) = 18446744073709551616 := by decide
      rw [this]; have : (2:Nat) ^ 64 = 18446744073709551616 := by decide
      omega)]
  congr 1
  omega

/-- the Horner value never exceeds the coefficient it was last subtracted from -/
theorem horner_le (chk : Bool) (z : Nat) (hz : z < 2 ^ 63) : ∀ (cs : List Nat) (y : Nat),
    nondecreasing (y :: cs) = true → (∀ c ∈ cs, c < 2 ^ 64) → y < 2 ^ 64 →
    ∃ y', horner chk z cs y = .ok y' ∧ y' ≤ cs.getLastD y := by
  intro cs
  induction cs with
  | nil => intro y _ _ _; exact ⟨y, rfl, Nat.le_refl _⟩
  | cons cu rest ih =>
    intro y hnd hc hy
    simp only [nondecreasing, Bool.and_eq_true, decide_eq_true_eq] at hnd
    have hcu := hc cu (List.mem_cons_self ..)
    obtain ⟨y', h1, h2⟩ := horner_step_ok chk z y cu hz hnd.1 hcu
    simp only [horner, h1, Res.bind_ok]
    have hnd' : nondecreasing (y' :: rest) = true := by
      cases rest with
      | nil => rfl
      | cons c r =>
        have := hnd.2
        simp only [nondecreasing, Bool.and_eq_true, decide_eq_true_eq] at this ⊢
        exact ⟨by omega, this.2⟩
    obtain ⟨y'', h3, h4⟩ := ih y' hnd' (fun c hc' => hc c (List.mem_cons_of_mem _ hc')) (by omega)
    refine ⟨y'', h3, ?_⟩
    cases rest with
    | nil =>
      have h5 : y'' ≤ y' := by simpa using h4
      have h6 : [cu].getLastD y = cu := by simp
      rw [h6]; omega
    | cons c r =>
      have h6 : (cu :: c :: r).getLastD y = (c :: r).getLastD y' := by simp [List.getLastD]
      rw [h6]; exact h4

theorem horner_append (chk : Bool) (z : Nat) : ∀ (cs : List Nat) (c y : Nat),
    horner chk z (cs ++ [c]) y = (horner chk z cs y >>= fun y1 => hornerStep chk z y1 c) := by
  intro cs
  induction cs with
  | nil =>
    intro c y
    cases h : hornerStep chk z y c <;> simp [horner, h]
  | cons a rest ih =>
    intro c y
    simp only [List.cons_append, horner]
    cases h : hornerStep chk z y a with
    | ok y' => simp only [Res.bind_ok, ih]
    | panic k => simp

/-- **ApproxExp is bounded away from zero**: for every z < 2^63 (x in [0, 1)) and every scaling zc = ⌊2^63·ccs⌋ with
    ccs in [1/2, 1] (ccs = σ_min/σ' ≥ σ_min/σ_max ≈ 0.70), the integer core returns a value in [23552, 2^63], in both
    build modes: the last Horner step subtracts at most 0x7FFFFFFFFFFF4800 from 2^63 -/
theorem approx_exp_core_range (chk : Bool) (z zc : Nat) (hz : z < 2 ^ 63) (hlo : 2 ^ 62 ≤ zc) (hhi : zc ≤ 2 ^ 63) :
    ∃ r, approxExpCore chk z zc = .ok r ∧ 23552 ≤ r ∧ r ≤ 2 ^ 63 := by
  unfold approxExpCore
  rw [expC_is_spec]
  simp only []
  have happ := horner_append chk z
    [0x00000036548CFC06, 0x0000024FDCBF140A, 0x0000171D939DE045, 0x0000D00CF58F6F84,
     0x000680681CF796E3, 0x002D82D8305B0FEA, 0x011111110E066FD0, 0x0555555555070F00, 0x155555555581FF00,
     0x400000000002B400, 0x7FFFFFFFFFFF4800] 0x8000000000000000 0x00000004741183A3
  simp only [List.cons_append, List.nil_append] at happ
  rw [happ]
  obtain ⟨y1, hy1, hle⟩ := horner_le chk z hz
    [0x00000036548CFC06, 0x0000024FDCBF140A, 0x0000171D939DE045, 0x0000D00CF58F6F84,
     0x000680681CF796E3, 0x002D82D8305B0FEA, 0x011111110E066FD0, 0x0555555555070F00, 0x155555555581FF00,
     0x400000000002B400, 0x7FFFFFFFFFFF4800] 0x00000004741183A3 (by decide) (by decide) (by decide)
  have hle' : y1 ≤ 0x7FFFFFFFFFFF4800 := by simpa [List.getLastD] using hle
  obtain ⟨hs, hq⟩ := horner_step_val chk z y1 0x8000000000000000 hz (by omega) (by decide)
  rw [hy1]
  simp only [Res.bind_ok, hs]
  generalize hyv : 0x8000000000000000 - z * y1 / 2 ^ 63 = y
  have hylo : 47104 ≤ y := by omega
  have hyhi : y ≤ 2 ^ 63 := by omega
  have h1 : zc * y ≤ 2 ^ 63 * 2 ^ 63 := Nat.mul_le_mul hhi hyhi
  have h2 : 2 ^ 62 * 47104 ≤ zc * y := Nat.mul_le_mul hlo hylo
  have h3 : zc * y / 2 ^ 63 ≤ 2 ^ 63 := by
    apply Nat.div_le_of_le_mul; exact h1
  have h4 : 23552 ≤ zc * y / 2 ^ 63 := by
    apply (Nat.le_div_iff_mul_le (by decide)).mpr
    calc 23552 * 2 ^ 63 = 2 ^ 62 * 47104 := by decide
      _ ≤ zc * y := h2
  have hmod : zc * y / 2 ^ 63 % 2 ^ 64 = zc * y / 2 ^ 63 := Nat.mod_eq_of_lt (by omega)
  exact ⟨_, rfl, by rw [hmod]; exact h4, by rw [hmod]; exact h3⟩

/-- **the integer part of BerExp is total**: for every value e ≥ 1 that ApproxExp can return (see
    `approx_exp_core_range`: e ≥ 23552), every shift s (clamped to 63) and every 7 random bytes, in both build modes —
    `2e − 1` does not underflow and the lazy comparison stays inside its bytes -/
theorem ber_exp_core_total (chk : Bool) (e s : Nat) (bytes : List Nat) (he : 1 ≤ e) (hb : bytes.length = 7) :
    ∃ b, berExpCore chk e s bytes = .ok b := by
  unfold berExpCore
  have : e * 2 ≥ 1 := by omega
  simp only [this, if_true, Res.bind_ok]
  obtain ⟨w, hw⟩ := ber_loop_total ((e * 2 - 1) / 2 ^ min s 63 % 2 ^ 64) bytes hb
  simp only [hw, Res.bind_ok]
  exact ⟨_, rfl⟩

/-- ApproxExp followed by the BerExp comparison: total for every x in [0, 1) (as 63-bit fixed point), every ccs in
    [1/2, 1], every shift and every 7 bytes -/
theorem approx_then_ber_total (chk : Bool) (z zc s : Nat) (bytes : List Nat) (hz : z < 2 ^ 63) (hlo : 2 ^ 62 ≤ zc)
    (hhi : zc ≤ 2 ^ 63) (hb : bytes.length = 7) :
    ∃ b, (approxExpCore chk z zc >>= fun e => berExpCore chk e s bytes) = .ok b := by
  obtain ⟨r, hr, h1, _⟩ := approx_exp_core_range chk z zc hz hlo hhi
  rw [hr]
  exact ber_exp_core_total chk r s bytes (by omega) hb

/-- **the last addition of `sampler_z`** (`z + floor(mu) as i16` in i16): for every base-sampler value z0 ≤ 18 and sign
    bit b, no overflow in either build mode whenever the centre's integer part is within [−32750, 32748].  Outside that
    window the i16 result type cannot hold the sample (known finding F7: `mu = 40000` saturates, `−40000` overflows). -/
theorem sampler_z_final_add_ok (chk : Bool) (z0 b : Nat) (s16 : Int) (hz0 : z0 ≤ 18) (hb : b ≤ 1)
    (h0 : -32750 ≤ s16) (h1 : s16 ≤ 32748) :
    arithS chk 16 (((b : Int) + (2 * (b : Int) - 1) * (z0 : Int)) + s16) = .ok (((b : Int) + (2 * (b : Int) - 1) * (z0 : Int)) + s16) := by
  have hb' : b = 0 ∨ b = 1 := by omega
  apply arithS_ok
  · rcases hb' with rfl | rfl <;> simp <;> omega
  · rcases hb' with rfl | rfl <;> simp <;> omega

/-- … and the window is sharp: at the saturated centre 32767 the sample 19 does not fit (F7) -/
theorem sampler_z_final_add_overflows : arithS true 16 (((1 : Int) + (2 * 1 - 1) * 18) + 32767) = .panic .overflow := by
  decide

/-! ### non-vacuity -/
example : baseSamplerU 0 = 18 ∧ baseSamplerU 1 = 17 ∧ baseSamplerU 3024686241123004913666 = 0 ∧
    baseSamplerU 3024686241123004913665 = 1 := by decide
example : approxExpCore true 0 (2 ^ 63) = .ok (2 ^ 63) := by decide

end Falcon.Props.C09
