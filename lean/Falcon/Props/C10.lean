import Mathlib.Algebra.Field.Basic
import Falcon.Gen.Params
import Mathlib.Tactic.Ring
import Mathlib.Tactic.FieldSimp

/-!
# C10 — signatures are spherical Gaussian: the exact-field identities behind it

What makes the output spherical is (i) the LDL* decomposition of the Gram matrix used to build the tree and
(ii) the nearest-plane identity ‖(t − z)·B‖² = Σ_leaves (t'_leaf − z_leaf)²·d_leaf together with the
normalisation σ_leaf = σ/√d_leaf.  Proved here over an arbitrary field: the 2×2 LDL identity as `ffldl`
computes it, and the one-level nearest-plane identity (the induction step of (ii)).  The identity at full
depth is evaluated numerically on every traced signature (to 10⁻⁶ relative, observed 10⁻¹²), which checks the
whole Gram/LDL/normalise/ffSampling chain per signature.  NOT decided: closeness of the joint law to the
spherical discrete Gaussian (Klein/GPV theorem and its smoothing-parameter condition).
-/
namespace Falcon.Props.C10

/-- the standard deviations the signer uses are the specification's (Table 3.3): σ = 165.7366171829776 /
    168.38857144654395, σ_min = 1.2778336969128337 / 1.298280334344292 (IEEE bit patterns of the literals), and
    key generation accepts a basis only below 1.17²·q (so every leaf width is at least σ_min) -/
theorem sampler_parameters_are_the_specifications :
    Gen.sigmaBits512 = 4640035355371950575 ∧ Gen.sigminBits512 = 4608433670533905013 ∧
    Gen.sigmaBits1024 = 4640128662717522458 ∧ Gen.sigminBits1024 = 4608525754002622308 ∧
    Gen.gammaBoundBits = 4608843796702554384 := ⟨rfl, rfl, rfl, rfl, rfl⟩

variable {K : Type} [Field K]

/-- **LDL\***: with l10 = g10/g00, its conjugate l10' = g01/g00, d00 = g00, d11 = g11 − l10·l10'·g00 (as in `ldl`),
    L·D·L* reproduces all four entries of G -/
theorem ldl_reconstructs (g00 g01 g10 g11 : K) (h0 : g00 ≠ 0) :
    let l10 := g10 / g00; let l10' := g01 / g00; let d00 := g00; let d11 := g11 - l10 * l10' * g00
    d00 = g00 ∧ l10 * d00 = g10 ∧ d00 * l10' = g01 ∧ l10 * d00 * l10' + d11 = g11 := by
  intro l10 l10' d00 d11
  refine ⟨rfl, ?_, ?_, ?_⟩
  · simp only [l10, d00]; field_simp
  · simp only [l10', d00]; field_simp
  · simp only [l10, l10', d00, d11]; ring

/-- **nearest plane, one level**: for the quadratic form of G = L·D·L* (real case, l10' = l10), any target
    (t0, t1) and any outputs (z0, z1), with t0' = t0 + (t1 − z1)·l10:
    (t−z)·G·(t−z)ᵀ = (t0' − z0)²·d00 + (t1 − z1)²·d11 -/
theorem nearest_plane_step (g00 g10 g11 t0 t1 z0 z1 : K) (h0 : g00 ≠ 0) :
    let l10 := g10 / g00; let d11 := g11 - l10 * l10 * g00
    let t0' := t0 + (t1 - z1) * l10
    (t0 - z0) * (t0 - z0) * g00 + 2 * (t0 - z0) * (t1 - z1) * g10 + (t1 - z1) * (t1 - z1) * g11
      = (t0' - z0) * (t0' - z0) * g00 + (t1 - z1) * (t1 - z1) * d11 := by
  intro l10 d11 t0'
  simp only [l10, d11, t0']
  field_simp
  ring

/-- normalisation: a leaf with value d gets width σ/√d, so (x/σ_leaf)² = x²·d/σ²: the weighted sum of
    squares above is σ² times the sum of squared normalised deviations -/
theorem leaf_normalisation (x d sigma s : K) (hs : s * s = d) (hsig : sigma ≠ 0) (hs0 : s ≠ 0) :
    sigma * sigma * ((x / (sigma / s)) * (x / (sigma / s))) = x * x * d := by
  rw [← hs]; field_simp

end Falcon.Props.C10
