import Mathlib.Algebra.Field.Basic
import Falcon.Gen.Params
import Mathlib.Tactic.Ring
import Mathlib.Tactic.FieldSimp
import Falcon.Lemmas.FfSamplingExact
import Falcon.Lemmas.SignRefine

/-!
# C10 — signatures are spherical Gaussian: the exact-field identities behind it

What makes the output spherical is (i) the LDL* decomposition of the Gram matrix used to build the tree and
(ii) the nearest-plane identity ‖(t − z)·B‖² = Σ_leaves (t'_leaf − z_leaf)²·d_leaf together with the
normalisation σ_leaf = σ/√d_leaf.  Proved here: over an arbitrary field the 2×2 LDL identity and the one-level
nearest-plane identity; and, for the model of `ldl` / `ffldl` / `ffsampling` (`Model/FfSampling`, written over abstract
field operations) instantiated with any field with an involution, the identity at FULL depth
(`fast_fourier_nearest_plane_identity`): for every depth, every Hermitian Gram matrix with non-zero pivots, every
target and every sequence of leaf outputs.  The same model instantiated with floating-point pairs is compared bit for
bit with the Rust code per key and per traced signature, and the identity is evaluated numerically on every traced
signature (to 10⁻⁶ relative, observed 10⁻¹²).  NOT decided: closeness of the joint law to the
spherical discrete Gaussian (Klein/GPV theorem and its smoothing-parameter condition).
-/
namespace Falcon.Props.C10

/-- the standard deviations the signer uses are the specification's (Table 3.3): σ = 165.7366171829776 /
    168.38857144654395, σ_min = 1.2778336969128337 / 1.298280334344292 (IEEE bit patterns of the literals), and
    key generation accepts a basis only below 1.17²·q (so every leaf width is at least σ_min) -/
theorem sampler_parameters_are_the_specifications :
    Gen.sigmaBits512 = 4640035355371950575 ∧ Gen.sigminBits512 = 4608433670533905013 ∧
    Gen.sigmaBits1024 = 4640128662717522458 ∧ Gen.sigminBits1024 = 4608525754002622308 ∧
    Gen.gammaBoundBits = 4608843796702554384 := ⟨rfl, rfl, rfl, rfl, rfl⟩

variable {K : Type} [Field K]

/-- **LDL\***: with l10 = g10/g00, its conjugate l10' = g01/g00, d00 = g00, d11 = g11 − l10·l10'·g00 (as in `ldl`),
    L·D·L* reproduces all four entries of G -/
theorem ldl_reconstructs (g00 g01 g10 g11 : K) (h0 : g00 ≠ 0) :
    let l10 := g10 / g00; let l10' := g01 / g00; let d00 := g00; let d11 := g11 - l10 * l10' * g00
    d00 = g00 ∧ l10 * d00 = g10 ∧ d00 * l10' = g01 ∧ l10 * d00 * l10' + d11 = g11 := by
  intro l10 l10' d00 d11
  refine ⟨rfl, ?_, ?_, ?_⟩
  · simp only [l10, d00]; field_simp
  · simp only [l10', d00]; field_simp
  · simp only [l10, l10', d00, d11]; ring

/-- **nearest plane, one level**: for the quadratic form of G = L·D·L* (real case, l10' = l10), any target
    (t0, t1) and any outputs (z0, z1), with t0' = t0 + (t1 − z1)·l10:
    (t−z)·G·(t−z)ᵀ = (t0' − z0)²·d00 + (t1 − z1)²·d11 -/
theorem nearest_plane_step (g00 g10 g11 t0 t1 z0 z1 : K) (h0 : g00 ≠ 0) :
    let l10 := g10 / g00; let d11 := g11 - l10 * l10 * g00
    let t0' := t0 + (t1 - z1) * l10
    (t0 - z0) * (t0 - z0) * g00 + 2 * (t0 - z0) * (t1 - z1) * g10 + (t1 - z1) * (t1 - z1) * g11
      = (t0' - z0) * (t0' - z0) * g00 + (t1 - z1) * (t1 - z1) * d11 := by
  intro l10 d11 t0'
  simp only [l10, d11, t0']
  field_simp
  ring

/-- normalisation: a leaf with value d gets width σ/√d, so (x/σ_leaf)² = x²·d/σ²: the weighted sum of
    squares above is σ² times the sum of squared normalised deviations -/
theorem leaf_normalisation (x d sigma s : K) (hs : s * s = d) (hsig : sigma ≠ 0) (hs0 : s ≠ 0) :
    sigma * sigma * ((x / (sigma / s)) * (x / (sigma / s))) = x * x * d := by
  rw [← hs]; field_simp

/-! ### the identity at full depth, on the model of ffsampling.rs -/

section FullDepth
open Falcon.FfS
variable {F : Type} [Field F] [StarRing F]

/-- **fast-Fourier nearest plane, every depth**: for the Falcon tree `ffldl` of every Gram matrix that is Hermitian with
    non-zero pivots at every level (`Good`; for the Gram matrix of a basis all pivots are positive), every target (t0, t1)
    of length 2^(k+1), unit-modulus twiddles, and EVERY sequence of leaf outputs (the integer sampler is a parameter): the
    outputs (z0, z1) of `ffsampling` have the right lengths and

      Σ_slots (t − z)·G·(t − z)^*  =  acc,

    the weighted sum of the leaf deviations accumulated along the recursion (2·(b − z)·G_leaf·(b − z)^* at the two leaves
    of a bottom branch, doubled at every level above; `leaf_term` gives the leaf's contribution in the form the code uses) -/
theorem fast_fourier_nearest_plane_identity (T : Nat → F) (hT : ∀ j, 1 ≤ j → T j * star (T j) = 1) (h2 : (2 : F) ≠ 0)
    (k : Nat) (g : Gram F) (hg : Good T k g) (t0 t1 s : List F) (l0 : t0.length = 2 ^ (k + 1)) (l1 : t1.length = 2 ^ (k + 1)) :
    (ffsampling fieldOps T (TIof T) (ffldl fieldOps (TIof T) k g) t0 t1 s).1.length = 2 ^ (k + 1) ∧
    (ffsampling fieldOps T (TIof T) (ffldl fieldOps (TIof T) k g) t0 t1 s).2.1.length = 2 ^ (k + 1) ∧
    QG (2 ^ (k + 1)) g
        (List.zipWith (fieldOps (K := F)).sub t0 (ffsampling fieldOps T (TIof T) (ffldl fieldOps (TIof T) k g) t0 t1 s).1)
        (List.zipWith (fieldOps (K := F)).sub t1 (ffsampling fieldOps T (TIof T) (ffldl fieldOps (TIof T) k g) t0 t1 s).2.1)
      = acc T k g t0 t1 s :=
  ffsampling_quadratic_form T hT h2 k g hg t0 t1 s l0 l1

/-- a leaf whose two slot values coincide (= δ: the diagonal entry is a real constant, as for the transform of a
    self-adjoint real polynomial) contributes δ·(|a0|² + |a1|²): with σ_leaf = σ/√δ this is σ²·((a0/σ_leaf)² + (a1/σ_leaf)²) -/
theorem leaf_term (T : Nat → F) (δ a0 a1 : F) (h2 : (2 : F) ≠ 0) :
    QG 1 (childGram fieldOps (TIof T) [δ, δ]) [a0] [a1] = δ * (a0 * star a0 + a1 * star a1) :=
  leaf_form T δ a0 a1 h2

/-- one level: LDL* on the quadratic form, then each diagonal entry one level down (`branch_step`), for ANY four
    half-size vectors in place of the children's outputs -/
theorem one_branch {m : Nat} (T : Nat → F) (g : Gram F) (hg : Herm (2 * m) g) (t0 t1 z0a z0b z1a z1b : List F)
    (l0 : t0.length = 2 * m) (l1 : t1.length = 2 * m) (la0 : z0a.length = m) (lb0 : z0b.length = m)
    (la1 : z1a.length = m) (lb1 : z1b.length = m)
    (hT : ∀ i, i < m → T (m + i) * star (T (m + i)) = 1) (h2 : (2 : F) ≠ 0) :
    QG (2 * m) g (List.zipWith (fieldOps (K := F)).sub t0 (merge fieldOps T z0a z0b))
        (List.zipWith (fieldOps (K := F)).sub t1 (merge fieldOps T z1a z1b)) =
      2 * QG m (childGram fieldOps (TIof T) (ldl fieldOps g).2.1)
          (List.zipWith (fieldOps (K := F)).sub (split fieldOps (TIof T) (List.zipWith (fieldOps (K := F)).add t0
            (List.zipWith (fieldOps (K := F)).mul (List.zipWith (fieldOps (K := F)).sub t1 (merge fieldOps T z1a z1b)) (ldl fieldOps g).1))).1 z0a)
          (List.zipWith (fieldOps (K := F)).sub (split fieldOps (TIof T) (List.zipWith (fieldOps (K := F)).add t0
            (List.zipWith (fieldOps (K := F)).mul (List.zipWith (fieldOps (K := F)).sub t1 (merge fieldOps T z1a z1b)) (ldl fieldOps g).1))).2 z0b) +
      2 * QG m (childGram fieldOps (TIof T) (ldl fieldOps g).2.2)
          (List.zipWith (fieldOps (K := F)).sub (split fieldOps (TIof T) t1).1 z1a)
          (List.zipWith (fieldOps (K := F)).sub (split fieldOps (TIof T) t1).2 z1b) :=
  branch_step m T g hg t0 t1 z0a z0b z1a z1b l0 l1 la0 lb0 la1 lb1 hT h2

/-- the child Gram matrices are Hermitian automatically; only their pivots are a hypothesis -/
theorem tree_gram_matrices_are_hermitian (m : Nat) (T : Nat → F) (d : List F) (ld : d.length = 2 * m)
    (hd : ∀ j, j < 2 * m → star (at' d j) = at' d j)
    (hp : ∀ i, i < m → at' (split fieldOps (TIof T) d).1 i ≠ 0) : Herm m (childGram fieldOps (TIof T) d) :=
  herm_child m T d ld hd hp

/-- non-vacuity: over ℚ (trivial involution, twiddles 1) a diagonal Gram matrix with positive entries meets `Good` -/
example : Good (fun _ => (1 : ℚ)) 0 ⟨[2, 2], [0, 0], [0, 0], [3, 3]⟩ := by
  refine ⟨rfl, rfl, rfl, rfl, ?_, ?_, ?_, ?_⟩ <;> intro j hj <;> interval_cases j <;> simp [at']

end FullDepth

/-- the recursion that the signing model runs with `sampler_z` at the leaves (`SignFlt.ffsamplingR`: compared byte for
    byte with the real `sign`) IS the generic `ffsampling` about which the identity above is proved, applied to the
    integers the sampler returned — for every tree, target and stream (no arithmetic is involved: the two definitions
    perform the same operations) -/
theorem signing_recursion_is_the_generic_one (chk : Bool) (sigmin : Float) (tree : FfS.Tree FftFlt.C)
    (t0 t1 : List FftFlt.C) (st : List Nat) (z0 z1 : List FftFlt.C) (st' : List Nat) (zs : List Int)
    (h : SignFlt.ffsamplingR chk sigmin tree t0 t1 st = .ok (some (z0, z1, st', zs))) (rest : List FftFlt.C) :
    FfS.ffsampling FfS.cfops FftFlt.T FftFlt.TI tree t0 t1 (FfS.ofInts zs ++ rest) = (z0, z1, rest) :=
  SignFlt.ffsamplingR_generic chk sigmin tree t0 t1 st z0 z1 st' zs h rest

end Falcon.Props.C10
