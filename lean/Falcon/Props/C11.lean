import Falcon.Lemmas.NttZMod
import Falcon.Lemmas.NttBreadthFirst

/-!
# C11 — NTT-based multiplication in Z_q[X]/(X^n+1) is exact

For every length n = 2^d ≤ 1024 and all polynomials with canonical coefficients, on the model
`Falcon.Ntt` of `Polynomial<Felt>::fft/ifft/hadamard_mul` with the tables regenerated from fast_fft.rs.
-/
namespace Falcon.Props.C11
open Falcon Falcon.Ntt

set_option maxRecDepth 100000 in
/-- the forward table is the bit-reversed powers of ψ = table[512], the inverse table those of ψ⁻¹,
    ψ^1024 = −1 (so ψ has order exactly 2048) and ψ·ψ⁻¹ = 1 — the property's sentence about the tables -/
theorem tables_are_bitreversed_powers :
    (∀ i, i < 1024 → T i = psi ^ bitrev10 i % 12289 ∧ TI i = psiInv ^ bitrev10 i % 12289) ∧
    psi ^ 1024 % 12289 = 12288 ∧ psi * psiInv % 12289 = 1 := by
  have h := powersOK_true
  unfold powersOK at h
  rw [Bool.and_eq_true, Bool.and_eq_true, Bool.and_eq_true] at h
  have h1 := eq_of_beq h.1.1.1
  have h2 := eq_of_beq h.1.1.2
  have h3 := eq_of_beq h.1.2
  have h4 := eq_of_beq h.2
  refine ⟨?_, h3, h4⟩
  intro i hi
  constructor
  · rw [T_eq, h1]; simp [List.getD_eq_getElem?_getD, hi]
  · rw [TI_eq, h2]; simp [List.getD_eq_getElem?_getD, hi]

/-- every table entry is canonical and the inverse table is the pointwise inverse -/
theorem tables_inverse (i : Nat) (hi : i < 1024) : T i * TI i % 12289 = 1 ∧ T i < 12289 ∧ TI i < 12289 :=
  table_inv i hi

/-- the stored n⁻¹ constants are correct and each length selects its own constant -/
theorem ninv_correct : ∀ d, d ≤ 10 → ∃ v, ninv (2 ^ d) = some v ∧ 2 ^ d * v % 12289 = 1 ∧ v < 12289 :=
  ninv_spec

private theorem inv_hyp (d : Nat) (hd : d ≤ 10) :
    ∀ e, e < d → ∀ j, 1 * 2 ^ e ≤ j → j < (1 + 1) * 2 ^ e → T' j * TI' j = 1 := by
  intro e he j _ h2
  have hp : 2 ^ e ≤ 2 ^ 9 := Nat.pow_le_pow_right (by decide) (by omega)
  exact T'_inv j (by omega)

private theorem scale_back (d v : Nat) (hv : 2 ^ d * v % 12289 = 1) (l : List Fq) :
    (l.map (((2 : Fq) ^ d) * ·)).map (· * c v) = l := by
  have h1 : ((2 : Fq) ^ d) * c v = 1 := by
    have : c (2 ^ d * v % 12289) = c 1 := by rw [hv]
    rw [c_of_mod] at this
    simpa [c] using this
  rw [List.map_map]
  conv_rhs => rw [← List.map_id l]
  apply List.map_congr_left
  intro x _
  simp only [Function.comp, id]
  calc (2 : Fq) ^ d * x * c v = x * ((2 : Fq) ^ d * c v) := by ring
    _ = x := by rw [h1, mul_one]

private theorem finish (d v : Nat) (X : List Nat) (want : List Nat)
    (hw : ∀ x ∈ want, x < 12289)
    (h : ((inttRec d 1 X).map (mulq · v)).map c = want.map c) :
    (inttRec d 1 X).map (mulq · v) = want := by
  apply map_c_inj _ _ _ hw h
  intro x hx
  simp only [List.mem_map] at hx
  obtain ⟨y, _, rfl⟩ := hx
  exact Nat.mod_lt _ (by decide)

/-- **round trip**: the inverse transform of the forward transform is the identity -/
theorem intt_ntt (d : Nat) (hd : d ≤ 10) (a : List Nat) (hl : a.length = 2 ^ d) (hc : ∀ x ∈ a, x < 12289) :
    intt d (ntt d a) = .ok a := by
  obtain ⟨v, hv1, hv2, _⟩ := ninv_spec d hd
  have hlen : (nttRec d 1 a).length = 2 ^ d := nttRec_length d 1 a hl
  simp only [intt, ntt, hlen, hv1]
  congr 1
  apply finish d v _ a hc
  rw [List.map_map]
  have : (c ∘ fun x => mulq x v) = (fun y => y * c v) ∘ c := by funext x; simp [c_mulq]
  rw [this, ← List.map_map, c_inttRec, c_nttRec,
    NttG.intt_ntt T' TI' d 1 (a.map c) (by simpa using hl) (inv_hyp d hd), scale_back d v hv2]

/-- **multiplication**: the inverse transform of the pointwise product of the transforms is the
    negacyclic product a ⋆ b in Z_q[X]/(X^n+1) -/
theorem ntt_mul_exact (d : Nat) (hd : d ≤ 10) (a b : List Nat)
    (hla : a.length = 2 ^ d) (hlb : b.length = 2 ^ d) :
    intt d (hadamard (ntt d a) (ntt d b)) = .ok (negacyc (2 ^ d) a b) := by
  obtain ⟨v, hv1, hv2, _⟩ := ninv_spec d hd
  have hA : (a.map c).length = 2 ^ d := by simpa using hla
  have hB : (b.map c).length = 2 ^ d := by simpa using hlb
  have hna := nttRec_length d 1 a hla
  have hnb := nttRec_length d 1 b hlb
  have hlen : (hadamard (nttRec d 1 a) (nttRec d 1 b)).length = 2 ^ d := by
    simp [hadamard, List.length_zipWith, hna, hnb]
  simp only [intt, ntt, hlen, hv1]
  congr 1
  apply finish d v _ _ (negacyc_lt _ a b)
  have hn : 0 < 2 ^ d := Nat.pow_pos (by decide)
  have hT := tableOK d hd
  -- the transform of the product
  have key : (hadamard (nttRec d 1 a) (nttRec d 1 b)).map c =
      NttG.nttRec T' d 1 (NttG.negacyc (2 ^ d) (a.map c) (b.map c)) := by
    rw [hadamard_c, c_nttRec, c_nttRec,
      NttG.ntt_eq_eval T' d 1 _ (le_refl 1) hT hA, NttG.ntt_eq_eval T' d 1 _ (le_refl 1) hT hB,
      zipWith_mul_map,
      NttG.ntt_eq_eval T' d 1 _ (le_refl 1) hT (NttG.negacyc_length (2 ^ d) hn _ _ hB)]
    apply List.map_congr_left
    intro ρ hρ
    have hp := NttG.roots_pow T' d 1 (le_refl 1) hT ρ hρ
    have hc1 : NttG.cst T' 1 = -1 := by simp [NttG.cst]
    rw [hc1] at hp
    exact (NttG.evalL_negacyc (2 ^ d) hn ρ hp _ _ hB).symm
  rw [List.map_map]
  have : (c ∘ fun x => mulq x v) = (fun y => y * c v) ∘ c := by funext x; simp [c_mulq]
  rw [this, ← List.map_map, c_inttRec, key,
    NttG.intt_ntt T' TI' d 1 _ (NttG.negacyc_length (2 ^ d) hn _ _ hB) (inv_hyp d hd),
    scale_back d v hv2, c_negacyc]

/-- **the model's network is the Rust loop nest**: the forward transform as cyclotomic_fourier.rs runs it — breadth first,
    the stage with m blocks using `psi_rev[m + i]` for block i — returns exactly what the depth-first network of the model
    returns (the same modular operations on the same operands; no algebraic law is used), for every n = 2^d -/
theorem ntt_is_the_breadth_first_loop_nest (d : Nat) (a : List Nat) (ha : a.length = 2 ^ d) :
    ntt d a = FftFlt.nttBF zqOps T d a := ntt_eq_BF d a ha

/-- … and so are the butterflies of the inverse transform (merging stages, innermost first, `psi_inv_rev[h + i]`) -/
theorem intt_is_the_breadth_first_loop_nest (d : Nat) (a : List Nat) (ha : a.length = 2 ^ d) :
    inttRec d 1 a = FftFlt.inttBF zqOps TI d a := inttRec_eq_BF d a ha

/-- the multiplication `⋆` used above is multiplication in Z_q[X]/(X^n+1): X·(p₀,…,p_{n−1}) = (−p_{n−1}, p₀, …) -/
example : negacyc 4 [0, 1, 0, 0] [1, 2, 3, 4] = [12285, 1, 2, 3] := by decide
/-- non-vacuity: a concrete instance of both theorems' hypotheses and conclusions -/
example : intt 2 (ntt 2 [1, 2, 3, 4]) = .ok [1, 2, 3, 4] := by decide
example : intt 1 (hadamard (ntt 1 [3, 5]) (ntt 1 [7, 11])) = .ok (negacyc 2 [3, 5] [7, 11]) := by decide

end Falcon.Props.C11
