import Falcon.Lemmas.ZqExact
import Falcon.Lemmas.BatchInv
-- property-theorems-also: Falcon/Lemmas/ZqExact.lean

/-!
# C12 — arithmetic modulo q = 12289 is exact and canonical

The element-wise theorems (`add_exact`, `sub_exact`, `neg_exact`, `mul_exact`, `balanced_exact`, `new_canonical`,
`inv_exact`, …) are in `Falcon/Lemmas/ZqExact.lean` (same namespace, audited with this file).  Here: batch
inversion (`Inverse::batch_inverse_or_zero` for `Felt`, Montgomery's trick with skipped zeros).
-/
namespace Falcon.Props.C12
open Falcon Falcon.Zq

/-- **batch inversion is element-wise inversion**: for every batch of canonical residues (any length, zeros
    anywhere) the two passes return exactly the inverse of each non-zero entry and 0 for each zero entry, and no
    intermediate product overflows, in both build modes -/
theorem batch_inverse_exact (chk : Bool) (xs : List Nat) (hx : ∀ x ∈ xs, x < q) :
    batchInv chk xs = .ok (xs.map invN) ∧
      ∀ x ∈ xs, invN x < q ∧ (if x = 0 then invN x = 0 else x * invN x % q = 1) := by
  have hx' : ∀ x ∈ xs, x < 12289 := fun x h => by simpa [q, Gen.q] using hx x h
  refine ⟨Batch.batchInv_eq chk xs hx', ?_⟩
  intro x hxm
  obtain ⟨i, hi, hlt, hspec⟩ := inv_exact chk x (hx x hxm)
  rw [inv_eq_invN chk x (hx x hxm)] at hi
  have : i = invN x := by injection hi with h; exact h.symm
  subst this
  exact ⟨hlt, hspec⟩

/-- non-vacuity: a batch with zeros in the middle and at the end -/
example : batchInv true [2, 0, 12288, 3, 0] = .ok [6145, 0, 12288, 8193, 0] := by decide +kernel

end Falcon.Props.C12
