import Falcon.Lemmas.FftExact
import Falcon.Lemmas.CplxTable
import Falcon.Lemmas.NttBreadthFirst

/-!
# C13 — the floating-point FFT layer: what the network computes in exact arithmetic, and the table

`Falcon.FftFlt` defines the transform, split and merge once, generically in the scalar operations.  The
executable instance (pairs of doubles, num-complex's formulas) is compared with the Rust code bit for bit on
every run; the theorems below are about the same definitions instantiated with an exact commutative ring/field:
round trip, multiplication = negacyclic product, merge ∘ split = id, split ∘ fft = (fft even, fft odd) — for
every length 2^d and every input, under the table relations (ζ² down the tree, ζ·ζ⁻¹ = 1, 2^d·n⁻¹ = 1, ½·2 = 1).
The table relations are checked for the real table in exact dyadic arithmetic to 2^-50.  NOT proved: the
rounding-error bound 2^-30·‖a‖·‖b‖ for all inputs (Lean's kernel has no floating-point semantics); it is
measured against exact integer arithmetic on every run (observed worst relative error ~2^-50).
-/
namespace Falcon.Props.C13
open Falcon Falcon.FftFlt

variable {F : Type} [CommRing F]

/-- the executable floating-point transform *is* the generic network at the Complex64 operations -/
theorem float_instance_is_the_generic_network (a : List C) :
    fft a = nttRecO cops FftFlt.T (log2 a.length) 1 a := rfl

/-- **the loop nest of the Rust code is the network of the model**: the forward transform run breadth first — stage
    after stage over the whole array, the stage with m blocks using twiddle `psi_rev[m + i]` for block i, as
    cyclotomic_fourier.rs does — returns exactly what the depth-first network returns, for ANY scalar operations (no
    algebraic law is used), hence for the floating-point instance bit for bit, for every d and every vector of length 2^d -/
theorem breadth_first_loop_nest_is_the_network {α : Type} (o : Ops α) (T : Nat → α) (d : Nat) (a : List α)
    (ha : a.length = 2 ^ d) : nttBF o T d a = nttRecO o T d 1 a :=
  nttBF_eq_nttRecO o T d a ha

/-- the same for the inverse transform: merging stages, innermost first, pair i of the stage with h parents using
    `psi_inv_rev[h + i]` and the butterfly `(u + v, (u − v)·s)` — equal to the depth-first inverse network, any operations -/
theorem breadth_first_inverse_loop_nest_is_the_network {α : Type} (o : Ops α) (TI : Nat → α) (d : Nat) (a : List α)
    (ha : a.length = 2 ^ d) : inttBF o TI d a = inttRecO o TI d 1 a :=
  inttBF_eq_inttRecO o TI d a ha

/-- … in particular for the executable Complex64 transform -/
theorem float_fft_is_the_breadth_first_loop_nest (d : Nat) (a : List C) (ha : a.length = 2 ^ d) :
    fft a = nttBF cops FftFlt.T d a := by
  rw [nttBF_eq_nttRecO cops FftFlt.T d a ha]
  unfold fft
  rw [ha]
  congr 1
  simp [log2, Nat.log2_two_pow]

/-- non-vacuity: two stages on four symbols, written out (any operations) -/
example (o : Ops Nat) (T : Nat → Nat) (a b c d : Nat) :
    nttBF o T 2 [a, b, c, d] = nttRecO o T 2 1 [a, b, c, d] := nttBF_eq_nttRecO o T 2 _ rfl

/-- ifft(fft a) = a in exact arithmetic -/
theorem roundtrip_exact (T TI : Nat → F) (d : Nat) (ninv : F) (hn : (2 : F) ^ d * ninv = 1) (a : List F)
    (ha : a.length = 2 ^ d)
    (hinv : ∀ e, e < d → ∀ j, 1 * 2 ^ e ≤ j → j < (1 + 1) * 2 ^ e → T j * TI j = 1) :
    (inttRecO ringOps TI d 1 (nttRecO ringOps T d 1 a)).map (· * ninv) = a :=
  ifft_fft_exact T TI d ninv hn a ha hinv

/-- ifft(fft a ⊙ fft b) = a ⋆ b in F[X]/(X^n+1) in exact arithmetic -/
theorem multiplication_exact (T TI : Nat → F) (d : Nat) (ninv : F) (hn : (2 : F) ^ d * ninv = 1) (a b : List F)
    (ha : a.length = 2 ^ d) (hb : b.length = 2 ^ d) (hT : NttG.TableOK T d 1)
    (hinv : ∀ e, e < d → ∀ j, 1 * 2 ^ e ≤ j → j < (1 + 1) * 2 ^ e → T j * TI j = 1) :
    (inttRecO ringOps TI d 1 (List.zipWith (· * ·) (nttRecO ringOps T d 1 a) (nttRecO ringOps T d 1 b))).map (· * ninv)
      = NttG.negacyc (2 ^ d) a b :=
  fft_mul_exact T TI d ninv hn a b ha hb hT hinv

/-- merge(split F) = F for every transform-domain vector of even length -/
theorem merge_split (T TI : Nat → F) (half : F) (hh : half * 2 = 1) (l : List F) (i : Nat)
    (hl : l.length % 2 = 0) (hz : ∀ j, i ≤ j → T j * TI j = 1) :
    mergeO ringOps T i (splitO ringOps TI half i l).1 (splitO ringOps TI half i l).2 = l :=
  merge_split_exact T TI half hh l.length l rfl i hl hz

/-- split(fft a) = (fft a_even, fft a_odd) for every a of length 2^(d+1) -/
theorem split_of_fft (T TI : Nat → F) (half : F) (hh : half * 2 = 1) (d : Nat) (a : List F)
    (ha : a.length = 2 ^ (d + 1)) (hT : NttG.TableOK T (d + 1) 1)
    (hinv : ∀ j, 2 ^ d ≤ j → j < 2 ^ (d + 1) → T j * TI j = 1) :
    splitO ringOps TI half (2 ^ d) (nttRecO ringOps T (d + 1) 1 a) =
      (nttRecO ringOps T d 1 (evens a), nttRecO ringOps T d 1 (odds a)) :=
  split_fft_exact T TI half hh d a ha hT hinv

/-- the complex table of fast_fft.rs satisfies those relations to 2^-50 in exact dyadic arithmetic
    (T[0] = 1, T[1] ≈ i, T[2k]² ≈ T[k], T[2k+1] ≈ i·T[2k], |T[k]| ≈ 1, even entries in the first quadrant) -/
theorem complex_table_consistent : CplxTab.tableOK = true := CplxTab.tableOK_true

/-- non-vacuity of the table hypotheses: they hold exactly in Z/12289 for the tables of C11 -/
example : (1 : Int) * 1 = 1 := rfl

end Falcon.Props.C13
