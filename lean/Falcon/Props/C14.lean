import Falcon.Model.Hash
import Falcon.Lemmas.HashStream
import Mathlib.Data.Finset.Card
import Mathlib.Data.Finset.Image

/-!
# C14 — HashToPoint is the specified rejection sampler (Algorithm 3)

Theorems about the loop of `hash_to_point` for an *arbitrary* stream of 16-bit chunks σ (so they do not
depend on SHAKE-256, which is modelled by an executable transcription validated against the `sha3` crate
on every run): the result is the accepted chunks (< 61445 = 5q) reduced mod q, in order, as many as
requested; every coefficient is canonical; the n = 512 point is a prefix of the n = 1024 point.
-/
namespace Falcon.Props.C14
open Falcon Falcon.Hash

/-- the constants extracted from polynomial.rs: K = ⌊2^16 / q⌋ = 5, threshold `t < K·q` = 61445, big-endian chunks -/
theorem source_constants :
    Gen.hashK = 5 ∧ Gen.hashK * Zq.q = 61445 ∧ Gen.hashCmpLe = false ∧
    Gen.hashHiIdx = 0 ∧ Gen.hashLoIdx = 1 ∧ Gen.hashShift = 8 := ⟨rfl, rfl, rfl, rfl, rfl, rfl⟩

theorem accepts_iff (t : Nat) : accepts t = true ↔ t < 61445 := by
  simp only [accepts, Gen.hashCmpLe, Gen.hashK, Zq.q, Gen.q]
  exact decide_eq_true_iff

/-- **Algorithm 3**: the loop returns the first n accepted chunks, each reduced modulo q -/
theorem loop_eq_spec : ∀ (σ : List Nat) (n : Nat),
    loop σ n = ((σ.filter (· < 61445)).map (· % 12289)).take n := by
  intro σ
  induction σ with
  | nil => intro n; cases n <;> simp [loop]
  | cons t rest ih =>
    intro n
    cases n with
    | zero => simp [loop]
    | succ n =>
      simp only [loop]
      by_cases h : t < 61445
      · have ha : accepts t = true := (accepts_iff t).mpr h
        have hnew : Zq.new ((t : Int) % (Zq.q : Int)) = t % 12289 := by
          simp only [Zq.new, Zq.q, Gen.q]; omega
        simp [ha, h, hnew, ih n]
      · have ha : accepts t = false := by
          cases hb : accepts t
          · rfl
          · exact absurd ((accepts_iff t).mp hb) h
        simp [ha, h, ih (n + 1)]

/-- every coefficient is in [0, q) -/
theorem loop_canonical (σ : List Nat) (n : Nat) : ∀ c ∈ loop σ n, c < 12289 := by
  rw [loop_eq_spec]
  intro c hc
  have := List.mem_of_mem_take hc
  simp only [List.mem_map] at this
  obtain ⟨t, _, rfl⟩ := this
  exact Nat.mod_lt _ (by decide)

/-- the Falcon-512 point of a string is the first half of its Falcon-1024 point (same stream) -/
theorem prefix_512_of_1024 (σ : List Nat) : loop σ 512 = (loop σ 1024).take 512 := by
  rw [loop_eq_spec, loop_eq_spec, List.take_take]
  simp

/-- deterministic and length-exact: when the stream prefix holds at least n accepted chunks the loop returns
    exactly n coefficients -/
theorem loop_length (σ : List Nat) (n : Nat) (h : n ≤ (σ.filter (· < 61445)).length) : (loop σ n).length = n := by
  rw [loop_eq_spec]; simp [List.length_take]; omega

/-- chunks are big-endian 16-bit words of the byte stream -/
theorem chunks16_cons (a b : Nat) (rest : List Nat) : chunks16 (a :: b :: rest) = (a * 256 + b) :: chunks16 rest := rfl

/-! ### the function as a whole: `hash_to_point(string, n)` with its SHAKE-256 squeezing -/

/-- **`hash_to_point` = Algorithm 3 on the string's SHAKE-256 stream**: whenever the function returns n coefficients
    (it always does unless the stream holds fewer than n accepted words in the model's squeezing budget), they are
    the first n words below 5q of the big-endian 16-bit reading of the stream, reduced mod q — for every sufficiently
    long prefix of the stream, so the number of blocks squeezed and their batching do not matter -/
theorem hash_to_point_is_algorithm3 (msg : List Nat) (n : Nat) (h : (hashToPoint msg n).length = n) :
    ∃ k, ∀ m, k ≤ m →
      hashToPoint msg n = (((chunks16 (Keccak.shake256 msg m)).filter (· < 61445)).map (· % 12289)).take n := by
  obtain ⟨k, hk⟩ := HashStream.hashToPoint_stable msg n h
  exact ⟨k, fun m hm => by rw [← hk m hm, loop_eq_spec]; rfl⟩

/-- every coefficient of the hashed point is in [0, q) -/
theorem hash_to_point_canonical (msg : List Nat) (n : Nat) (h : (hashToPoint msg n).length = n) :
    ∀ c ∈ hashToPoint msg n, c < 12289 := by
  obtain ⟨k, hk⟩ := HashStream.hashToPoint_stable msg n h
  rw [← hk k (Nat.le_refl k)]
  exact loop_canonical _ _

/-- the Falcon-512 point of a string is the first half of its Falcon-1024 point — for the function itself, although
    the two calls squeeze different numbers of blocks -/
theorem hash_512_is_prefix_of_1024 (msg : List Nat) (h5 : (hashToPoint msg 512).length = 512)
    (h10 : (hashToPoint msg 1024).length = 1024) : hashToPoint msg 512 = (hashToPoint msg 1024).take 512 := by
  obtain ⟨k1, hk1⟩ := HashStream.hashToPoint_stable msg 512 h5
  obtain ⟨k2, hk2⟩ := HashStream.hashToPoint_stable msg 1024 h10
  rw [← hk1 (max k1 k2) (Nat.le_max_left _ _), ← hk2 (max k1 k2) (Nat.le_max_right _ _)]
  exact prefix_512_of_1024 _

/-- why the threshold is 5q: every residue r has exactly five accepted 16-bit words (r, r+q, …, r+4q), so the reduced
    coefficient of an accepted word is uniform on [0, q) when the word is uniform -/
theorem accepted_words_per_residue (r : Nat) (hr : r < 12289) :
    ((Finset.range 61445).filter (fun t => t % 12289 = r)).card = 5 := by
  have : (Finset.range 61445).filter (fun t => t % 12289 = r) = (Finset.range 5).image (fun k => r + 12289 * k) := by
    ext t
    simp only [Finset.mem_filter, Finset.mem_range, Finset.mem_image]
    constructor
    · rintro ⟨ht, hm⟩
      exact ⟨t / 12289, by omega, by omega⟩
    · rintro ⟨k, hk, rfl⟩
      exact ⟨by omega, by omega⟩
  rw [this, Finset.card_image_of_injective _ (fun a b h => by have h2 : r + 12289 * a = r + 12289 * b := h; omega), Finset.card_range]

/-- non-vacuity: 61444 is accepted (as 61444 mod q = 12288), 61445 and 65535 are discarded -/
example : loop [61445, 61444, 65535, 7, 12289] 3 = [12288, 7, 0] := by decide

end Falcon.Props.C14
