import Falcon.Model.KeygenSkel
import Falcon.Gen.Scan
import Falcon.Model.Keygen
import Falcon.Lemmas.ChaChaStream
import Falcon.Lemmas.GenPolyStream

/-!
# C15 — key generation is a deterministic function of the seed

In the model, key generation *is* a function of the seed (`KeygenSkel.firstCandidate` computes the first
candidate polynomials from the 32 seed bytes through ChaCha12 and the sampler), so determinism is
definitional; what is checked on every run is the tie: (1) the model's candidates computed from the seed equal
those the real `ntru_gen` draws, (2) the only places where the library touches an entropy source, a clock,
a global or interior-mutable state (scanned from the source by the translator) are `SecretKey::generate` and
`sign` — nothing reachable from `generate_from_seed`, (3) byte-identical keys across threads, processes and
build profiles.  Seed sensitivity (every bit matters) is sampled on the candidate stage, not proved: it is a
statement about ChaCha12.
-/
namespace Falcon.Props.C15
open Falcon

/-- the complete list of entropy / clock / global-state uses outside `#[cfg(test)]`, by file and source text:
    `SecretKey::generate` (which only draws the seed) and `sign` -/
theorem entropy_sources_are_only_generate_and_sign :
    Gen.entropySites.map (fun s => (s.1, s.2.2)) =
      [("falcon.rs", "Self::generate_from_seed(thread_rng().gen())"),
       ("falcon.rs", "let mut rng = thread_rng();")] := by decide

/-- the key-generation parameters of `gen_poly` are the specification's (σ* = 1.17·√(q/8192), 4096 samples) -/
theorem gen_poly_constants :
    Gen.genPolyNumCoefficients = 4096 ∧ Gen.genPolySigmaStarBits = 4609132521597759000 := ⟨rfl, rfl⟩

/-- the model's candidate stage is a function of (mode, degree, seed) alone -/
theorem candidates_are_a_function_of_the_seed (chk : Bool) (n : Nat) (s1 s2 : List Nat) (h : s1 = s2) :
    KeygenSkel.firstCandidate chk n s1 = KeygenSkel.firstCandidate chk n s2 := by rw [h]

/-- the whole modelled key generation (`Model/Keygen.ntruGen`: candidate loop with its four guards, `ntru_solve`, both
    Babai reductions — byte-identical with the real `keygen` on every compared seed) takes the build mode, the degree
    and the 32 seed bytes and nothing else: it has no other argument, reads no state and is a total function, so two
    runs on the same seed return the same (f, g, F, G) -/
theorem keygen_model_is_a_function_of_the_seed (chk : Bool) (n : Nat) (s1 s2 : List Nat) (h : s1 = s2) :
    Keygen.ntruGen chk n s1 = Keygen.ntruGen chk n s2 := by rw [h]

/-- **the candidates are drawn consecutively from ONE ChaCha12 keystream of the seed**: the window of blocks that the
    model of `ntru_gen` opens for a candidate at byte offset `off` (where the previous candidate stopped reading) is
    exactly the keystream `StdRng::from_seed(seed)` yields from byte `off` on — no re-seeding, no second stream, no
    bytes skipped or read twice between candidates -/
theorem candidate_window_is_the_keystream (seed : List Nat) (off nb : Nat) :
    (ChaCha.byteStreamFrom seed (off / 16) nb).drop (off % 16) = (ChaCha.byteStream seed (off / 16 + nb)).drop off :=
  ChaCha.window_at_offset seed off nb

/-- … and the keystream does not depend on how far it was expanded -/
theorem keystream_is_one_stream (seed : List Nat) (a b : Nat) :
    ChaCha.byteStream seed (a + b) = ChaCha.byteStream seed a ++ ChaCha.byteStreamFrom seed a b ∧
    (ChaCha.byteStream seed (a + b)).take (16 * a) = ChaCha.byteStream seed a :=
  ⟨ChaCha.byteStream_add seed a b, ChaCha.keystream_prefix seed a b⟩

/-- what `gen_poly` leaves unread is its input stream minus a prefix — g is drawn exactly where f stopped, and the next
    candidate where g stopped (with `candidate_window_is_the_keystream`: all of them consecutively from the one keystream
    of the seed) -/
theorem gen_poly_reads_a_prefix (chk : Bool) (n : Nat) (stream : List Nat) (p : List Int) (rest : List Nat)
    (h : KeygenSkel.genPoly chk n stream = .ok (some (p, rest))) : ∃ k, rest = stream.drop k :=
  KeygenSkel.genPoly_reads_a_prefix chk n stream p rest h

end Falcon.Props.C15
