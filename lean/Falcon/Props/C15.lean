import Falcon.Model.KeygenSkel
import Falcon.Gen.Scan

/-!
# C15 — key generation is a deterministic function of the seed

In the model, key generation *is* a function of the seed (`KeygenSkel.firstCandidate` computes the first
candidate polynomials from the 32 seed bytes through ChaCha12 and the sampler), so determinism is
definitional; what is checked on every run is the tie: (1) the model's candidates computed from the seed equal
those the real `ntru_gen` draws, (2) the only places where the library touches an entropy source, a clock,
a global or interior-mutable state (scanned from the source by the translator) are `SecretKey::generate` and
`sign` — nothing reachable from `generate_from_seed`, (3) byte-identical keys across threads, processes and
build profiles.  Seed sensitivity (every bit matters) is sampled on the candidate stage, not proved: it is a
statement about ChaCha12.
-/
namespace Falcon.Props.C15
open Falcon

/-- the complete list of entropy / clock / global-state uses outside `#[cfg(test)]`, by file and source text:
    `SecretKey::generate` (which only draws the seed) and `sign` -/
theorem entropy_sources_are_only_generate_and_sign :
    Gen.entropySites.map (fun s => (s.1, s.2.2)) =
      [("falcon.rs", "Self::generate_from_seed(thread_rng().gen())"),
       ("falcon.rs", "let mut rng = thread_rng();")] := by decide

/-- the key-generation parameters of `gen_poly` are the specification's (σ* = 1.17·√(q/8192), 4096 samples) -/
theorem gen_poly_constants :
    Gen.genPolyNumCoefficients = 4096 ∧ Gen.genPolySigmaStarBits = 4609132521597759000 := ⟨rfl, rfl⟩

/-- the model's candidate stage is a function of (mode, degree, seed) alone -/
theorem candidates_are_a_function_of_the_seed (chk : Bool) (n : Nat) (s1 s2 : List Nat) (h : s1 = s2) :
    KeygenSkel.firstCandidate chk n s1 = KeygenSkel.firstCandidate chk n s2 := by rw [h]

end Falcon.Props.C15
