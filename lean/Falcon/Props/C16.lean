import Falcon.Spec.RefFormat
import Falcon.Model.KeyCodec
import Falcon.Gen.Params
import Falcon.Lemmas.RefFormatEq
import Falcon.Lemmas.RefSigEq
import Falcon.Lemmas.RefSigStrip
import Falcon.Lemmas.CodecRefine

/-!
# C16 — interoperability with the reference implementation (PQClean)

`Falcon.RefFormat` transcribes the reference's key decoders (`codec.c`, `pqclean.c`).  Proved here: the
format parameters of the two sides coincide (lengths, header bytes, field widths, modulus, reserved value)
and the re-labelling map between the two signature framings is a bijection on headers; and the two *decoding
functions* are equal on every byte string (`reference_public_key_decoder_agrees`,
`reference_secret_key_decoder_agrees`: the reference's 32-bit accumulator loops against this library's bit-chunk
formulation), so each side decodes exactly the keys the other one does, to the same polynomials.  The transcription
is compared with the model on generated and mutated encodings on every run (`fmt_agree`), and all four
interoperability directions are run against the real PQClean code.  Known, intended gap (not a defect): the reference's signature decoder caps
coefficients at 2047 while this library and the specification accept up to the norm bound (honest signatures
stay far below 2047).
-/
namespace Falcon.Props.C16
open Falcon Falcon.KeyCodec

/-- same lengths, headers, widths and modulus on both sides, for both variants -/
theorem format_parameters_agree :
    RefFormat.maxFgBits 9 = Gen.skWidthFG512 ∧ RefFormat.maxFgBits 10 = Gen.skWidthFG1024 ∧
    RefFormat.maxFGBits = Gen.skWidthCapF ∧
    Gen.pkLen = [(1 + 2 ^ 9 * 14 / 8, 512), (1 + 2 ^ 10 * 14 / 8, 1024)] ∧ Gen.pkWidth = 14 ∧
    Gen.skHeaderHi * 2 ^ Gen.skHeaderShift = 0x50 ∧ Gen.q = 12289 ∧
    1 + (2 ^ 9 * 6 + 7) / 8 + (2 ^ 9 * 6 + 7) / 8 + (2 ^ 9 * 8 + 7) / 8 = 1281 ∧
    1 + (2 ^ 10 * 5 + 7) / 8 + (2 ^ 10 * 5 + 7) / 8 + (2 ^ 10 * 8 + 7) / 8 = 2305 := by decide

/-- the signature framings differ only in the header byte (0x30|logn there, 0x50|logn here) and in the zero
    padding; relabelling is invertible on the two valid headers -/
theorem header_relabelling :
    (0x30 ||| (0x59 &&& 0x0f) = 0x39) ∧ (0x30 ||| (0x5a &&& 0x0f) = 0x3a) ∧
    (0x50 ||| (0x39 &&& 0x0f) = 0x59) ∧ (0x50 ||| (0x3a &&& 0x0f) = 0x5a) := by decide

/-- the documented gap: magnitudes 2048 … 5833 are within ⌊β²⌋ of Falcon-512 (so the specification and this
    library can accept them) but beyond the reference decoder's cap of 2047 -/
theorem reference_cap_gap : 2048 * 2048 ≤ 34034726 ∧ 5833 * 5833 ≤ 34034726 ∧ 5834 * 5834 > 34034726 := by decide

/-- both decoders reject the reserved field value −2^(w−1) -/
theorem reserved_value_rejected_by_both :
    RefFormat.trimI8Decode 0 8 [0x80] = none ∧ KeyCodec.deserializeField (KeyCodec.intBits 8 (-128)) = none := by decide

/-- **public keys**: the reference's import (`modq_decode` behind fixed length and header 0x00|logn) and
    `PublicKey::from_bytes` accept the same byte strings and return the same coefficients -/
theorem reference_public_key_decoder_agrees (logn N : Nat) (hN : (logn = 9 ∧ N = 512) ∨ (logn = 10 ∧ N = 1024))
    (pk : List Nat) (hwf : ∀ x ∈ pk, x < 256) :
    RefFormat.pkDecode logn pk = (match KeyCodec.pkFromBytes N pk with | .ok (.ok h) => some h | _ => none) :=
  RefEq.pkDecode_eq logn N hN pk hwf

/-- **secret keys**: the reference's import (three `trim_i8_decode` calls behind fixed length and header
    0x50|logn) and the model of `SecretKey::from_bytes` accept the same byte strings; the reference's signed
    coefficients reduce to the residues this library stores -/
theorem reference_secret_key_decoder_agrees (logn N : Nat) (hN : (logn = 9 ∧ N = 512) ∨ (logn = 10 ∧ N = 1024))
    (sk : List Nat) (hwf : ∀ x ∈ sk, x < 256) :
    (RefFormat.skDecode logn sk).map (fun t => (t.1.map Zq.new, t.2.1.map Zq.new, t.2.2.map Zq.new)) =
      (match KeyCodec.skFromBytes N sk with | .ok (.ok t) => some t | _ => none) :=
  RefEq.skDecode_eq logn N hN sk hwf

/-- hence the reference decodes every public key this library writes, to the same polynomial -/
theorem reference_reads_our_public_keys (logn N : Nat) (hN : (logn = 9 ∧ N = 512) ∨ (logn = 10 ∧ N = 1024))
    (h : List Nat) (hl : h.length = N) (hq : ∀ x ∈ h, x < 12289) :
    RefFormat.pkDecode logn (KeyCodec.pkToBytes h) = some h := by
  have hN' : N = 512 ∨ N = 1024 := by rcases hN with ⟨_, a⟩ | ⟨_, a⟩ <;> simp [a]
  have hrt := KeyCodec.pk_roundtrip N hN' h hl hq
  have hwf : ∀ x ∈ KeyCodec.pkToBytes h, x < 256 := by
    -- what `to_bytes` writes are bytes: the header and packed bit octets
    intro x hx
    unfold KeyCodec.pkToBytes at hx
    exact RefEq.bytesOfBits_lt _ x hx
  rw [RefEq.pkDecode_eq logn N hN _ hwf]
  unfold RefEq.oursPk
  rw [hrt]

private theorem bind_ok_inv {α β : Type} (x : Res α) (f : α → Res β) (b : β) (h : (x >>= f) = .ok b) :
    ∃ a, x = .ok a ∧ f a = .ok b := by
  cases x with
  | ok a => exact ⟨a, rfl, h⟩
  | panic k => simp at h

/-- what `SecretKey::to_bytes` writes are bytes -/
theorem skToBytes_bytes (chk : Bool) (f g cF : List Int) (b : List Nat) (h : skToBytes chk f g cF = .ok b) :
    ∀ x ∈ b, x < 256 := by
  unfold skToBytes at h
  cases hw : skWidthFG g.length with
  | panic k => simp [hw] at h
  | ok wf =>
    simp only [hw, Res.bind_ok] at h
    obtain ⟨fb, _, h⟩ := bind_ok_inv _ _ _ h
    obtain ⟨gb, _, h⟩ := bind_ok_inv _ _ _ h
    obtain ⟨Fb, _, h⟩ := bind_ok_inv _ _ _ h
    simp only [Res.pure_eq, Res.ok.injEq] at h
    subst h
    exact RefEq.bytesOfBits_lt _

/-- hence the reference decodes every secret key this library writes — every (f, g, F) inside the ranges the
    key-generation guards enforce — to the same residues, for both variants and both build modes -/
theorem reference_reads_our_secret_keys (chk : Bool) (logn N : Nat) (hN : (logn = 9 ∧ N = 512) ∨ (logn = 10 ∧ N = 1024))
    (f g cF : List Int) (lf : f.length = N) (lg : g.length = N) (lF : cF.length = N)
    (hf : ∀ x ∈ f, x.natAbs ≤ 2 ^ ((if N = 1024 then 5 else 6) - 1) - 1)
    (hg : ∀ x ∈ g, x.natAbs ≤ 2 ^ ((if N = 1024 then 5 else 6) - 1) - 1)
    (hF : ∀ x ∈ cF, x.natAbs ≤ 127) :
    ∃ b, skToBytes chk f g cF = .ok b ∧
      (RefFormat.skDecode logn b).map (fun t => (t.1.map Zq.new, t.2.1.map Zq.new, t.2.2.map Zq.new)) =
        some (f.map Zq.new, g.map Zq.new, cF.map Zq.new) := by
  have hrt : ∃ b, skToBytes chk f g cF = .ok b ∧
      skFromBytes N b = .ok (.ok (f.map Zq.new, g.map Zq.new, cF.map Zq.new)) := by
    rcases hN with ⟨_, rfl⟩ | ⟨_, rfl⟩
    · obtain ⟨b, h1, _, h2⟩ := sk_roundtrip chk 512 6 1280 (Or.inl ⟨rfl, rfl, rfl⟩) f g cF lf lg lF
        (fun x hx => by simpa using hf x hx) (fun x hx => by simpa using hg x hx) hF
      exact ⟨b, h1, h2⟩
    · obtain ⟨b, h1, _, h2⟩ := sk_roundtrip chk 1024 5 2304 (Or.inr ⟨rfl, rfl, rfl⟩) f g cF lf lg lF
        (fun x hx => by simpa using hf x hx) (fun x hx => by simpa using hg x hx) hF
      exact ⟨b, h1, h2⟩
  obtain ⟨b, h1, h2⟩ := hrt
  refine ⟨b, h1, ?_⟩
  rw [reference_secret_key_decoder_agrees logn N hN b (skToBytes_bytes chk f g cF b h1), h2]

/-- **signatures, reference → Algorithm 18**: if the reference's `comp_decode` (transcribed from `codec.c`: 32-bit
    accumulator, pending-bit counter, inner unary loop with the `m > 2047` test, "-0" and trailing-bit checks) returns
    (x, v) on a byte string, then v bytes were consumed and, when the bytes after them are all zero (a padded signature),
    Algorithm 18 with the reference's cap decodes the whole string to the same vector — for every byte string, every logn -/
theorem reference_signature_decoder_sound (logn : Nat) (body : List Nat) (hb : ∀ b ∈ body, b < 256) (x : List Int) (v : Nat)
    (h : RefSig.compDecode logn body = some (x, v)) :
    ∃ used rest, body = used ++ rest ∧ v = used.length ∧
      ((∀ b ∈ rest, b = 0) → Spec.decompressRef 16 body (2 ^ logn) = some x) :=
  RefEq.compDecode_sound logn body hb x v h

/-- **signatures, Algorithm 18 → reference**: whatever Algorithm 18 with the reference's cap decodes, `comp_decode`
    accepts with the same vector, and every byte it leaves unread is zero (what the reference's verifier demands of the
    padding) -/
theorem reference_signature_decoder_complete (logn : Nat) (body : List Nat) (hb : ∀ b ∈ body, b < 256) (x : List Int)
    (h : Spec.decompressRef 16 body (2 ^ logn) = some x) :
    ∃ used rest, body = used ++ rest ∧ RefSig.compDecode logn body = some (x, used.length) ∧ ∀ b ∈ rest, b = 0 :=
  RefEq.compDecode_complete logn body hb x h

/-- **every reference signature body, zero-padded, decodes here to the same vector**: the byte-level model of this
    library's `decompress` (both build modes) accepts what `comp_decode` accepts -/
theorem reference_signatures_decode_here (chk : Bool) (logn : Nat) (body : List Nat) (hb : ∀ b ∈ body, b < 256)
    (x : List Int) (v : Nat) (h : RefSig.compDecode logn body = some (x, v)) (hz : ∀ b ∈ body.drop v, b = 0) :
    Codec.decompress chk body (2 ^ logn) = .ok (some x) := by
  obtain ⟨used, rest, hbody, hv, himp⟩ := RefEq.compDecode_sound logn body hb x v h
  have hrest : body.drop v = rest := by rw [hbody, hv]; exact List.drop_left' rfl
  rw [hrest] at hz
  have h16 := himp hz
  have hn : 2 ^ logn ≠ 0 := Nat.pos_iff_ne_zero.mp (Nat.pow_pos (by decide))
  rw [Codec.decompress_eq_spec chk body hb (2 ^ logn) (Nat.pow_pos (by decide))]
  simp only [Spec.decompressRef, hn, if_false] at h16 ⊢
  rw [RefEq.decBits_cap_mono _ _ _ h16]

/-- **every signature body this library accepts whose coefficients are within the reference's range (|x_i| ≤ 2047)
    is accepted by the reference's decoder with the same vector**, the unread bytes being zero padding; coefficients
    between 2048 and 5833 are the documented divergence (`reference_cap_gap`) -/
theorem our_signatures_decode_at_the_reference (chk : Bool) (logn : Nat) (body : List Nat) (hb : ∀ b ∈ body, b < 256)
    (x : List Int) (h : Codec.decompress chk body (2 ^ logn) = .ok (some x)) (hx : ∀ c ∈ x, c.natAbs ≤ 2047) :
    ∃ used rest, body = used ++ rest ∧ RefSig.compDecode logn body = some (x, used.length) ∧ ∀ b ∈ rest, b = 0 := by
  have hn : 2 ^ logn ≠ 0 := Nat.pos_iff_ne_zero.mp (Nat.pow_pos (by decide))
  rw [Codec.decompress_eq_spec chk body hb (2 ^ logn) (Nat.pow_pos (by decide))] at h
  have h95 : Spec.decompressRef 95 body (2 ^ logn) = some x := Res.ok.inj h
  apply RefEq.compDecode_complete logn body hb x
  simp only [Spec.decompressRef, hn, if_false] at h95 ⊢
  exact RefEq.decBits_cap_small _ _ _ h95 hx

/-- **"with the zero padding stripped, accepted by the reference"** — the property's wording for the decoder: every
    signature body this library accepts with coefficients in the reference's range splits into a prefix that the
    reference's decoder accepts as a whole (all bytes consumed, the same vector) and a suffix of zero bytes -/
theorem our_signatures_stripped_decode_at_the_reference (chk : Bool) (logn : Nat) (body : List Nat) (hb : ∀ b ∈ body, b < 256)
    (x : List Int) (h : Codec.decompress chk body (2 ^ logn) = .ok (some x)) (hx : ∀ c ∈ x, c.natAbs ≤ 2047) :
    ∃ v, v ≤ body.length ∧ RefSig.sigDecode logn (body.take v) = some x ∧ ∀ b ∈ body.drop v, b = 0 := by
  obtain ⟨used, rest, hbody, hdec, hz⟩ := our_signatures_decode_at_the_reference chk logn body hb x h hx
  refine ⟨used.length, by rw [hbody]; simp, RefEq.compDecode_strip logn body x used.length hdec, ?_⟩
  have : body.drop used.length = rest := by rw [hbody]; exact List.drop_left' rfl
  rw [this]; exact hz

/-- non-vacuity: the reference decodes the 2-coefficient body `[0x01, 0xC1, 0x40]` (+1, −2) consuming 3 bytes -/
example : RefSig.compDecode 1 [0x01, 0xC1, 0x40] = some ([1, -2], 3) := by decide

/-- what this side sends to the reference verifier is an honest signature of the hashed salt: the loop structure of
    `sign` as extracted (retry iff norm > bound; the salt buffer is filled once, before hashing, and not again on a
    compression retry) — the same pins as C01, because a signature that does not verify here cannot verify there -/
theorem signatures_sent_are_honest :
    Gen.signNormRetryGt = true ∧ Gen.signSaltFills = 1 ∧ Gen.signSaltWrites = 2 ∧ Gen.signSaltBeforeHash = true :=
  ⟨rfl, rfl, rfl, rfl⟩

/-- non-vacuity: both sides decode the all-zero Falcon-512 public key to the zero polynomial -/
example : RefFormat.pkDecode 9 (9 :: List.replicate 896 0) = some (List.replicate 512 0) := by decide +kernel

end Falcon.Props.C16
