import Falcon.Lemmas.BabaiAlg
import Falcon.Model.Zp

/-!
# C17 — Babai size reduction preserves the NTRU equation; the 32-bit path multiplies exactly

* ring part (all n, all inputs, every quotient the floating-point code may produce): a reduction step
  (F, G) ↦ (F − k⋆f, G − k⋆g) and the whole loop leave f⋆G − g⋆F unchanged in Z[X]/(X^n+1);
* the loop stops exactly when its quotient is zero, so a second run on its result is the identity;
* the 30-bit-prime tables used by the multi-modular path are consistent (kernel evaluation over the
  tables re-extracted from fast_fft.rs).
Agreement of the two floating-point quotient computations (32-bit vs. big-integer path) is not proved; both
functions are run on the same inputs on every check and compared.
-/
namespace Falcon.Props.C17
open Falcon Falcon.RingZ

/-- one reduction step preserves f⋆G − g⋆F, at every root of X^n+1 in every commutative ring (in
    particular in Z[X]/(X^n+1) itself), for every quotient polynomial k -/
theorem step_preserves_ntru {R : Type} [CommRing R] (n : Nat) (hn : 0 < n) (ρ : R) (hρ : ρ ^ n = -1)
    (f g cF cG k : List Int) (hf : f.length = n) (hg : g.length = n) (hF : cF.length = n) (hG : cG.length = n) :
    ev (ntruLhs n f g (babaiStep n f g (cF, cG) k).1 (babaiStep n f g (cF, cG) k).2) ρ = ev (ntruLhs n f g cF cG) ρ :=
  babaiStep_invariant n hn ρ hρ f g cF cG k hf hg hF hG

/-- so does the whole loop, whatever sequence of quotients the floating-point computation supplies -/
theorem reduction_preserves_ntru {R : Type} [CommRing R] (n : Nat) (hn : 0 < n) (ρ : R) (hρ : ρ ^ n = -1)
    (f g : List Int) (hf : f.length = n) (hg : g.length = n) (ks : List (List Int)) (cF cG : List Int)
    (hF : cF.length = n) (hG : cG.length = n) :
    ev (ntruLhs n f g (babaiRun n f g ks (cF, cG)).1 (babaiRun n f g ks (cF, cG)).2) ρ = ev (ntruLhs n f g cF cG) ρ :=
  babaiRun_invariant n hn ρ hρ f g hf hg ks cF cG hF hG

/-- the loop with the quotient as a (deterministic) function of the current pair -/
def reduceWith (n : Nat) (f g : List Int) (kOf : List Int × List Int → List Int) :
    Nat → List Int × List Int → Option (List Int × List Int)
  | 0, _ => none                                   -- round limit reached (the code returns Err)
  | fuel + 1, FG =>
    let k := kOf FG
    if k.all (· == 0) then some FG else reduceWith n f g kOf fuel (babaiStep n f g FG k)

/-- **idempotence**: the exit condition *is* "the quotient of the result is zero", hence reducing a reduced
    pair changes nothing -/
theorem reduce_idempotent (n : Nat) (f g : List Int) (kOf : List Int × List Int → List Int) :
    ∀ (fuel : Nat) (FG FG' : List Int × List Int), reduceWith n f g kOf fuel FG = some FG' →
      ∀ fuel', 0 < fuel' → reduceWith n f g kOf fuel' FG' = some FG' := by
  intro fuel
  induction fuel with
  | zero => intro FG FG' h; simp [reduceWith] at h
  | succ fuel ih =>
    intro FG FG' h fuel' hf
    simp only [reduceWith] at h
    by_cases hk : (kOf FG).all (· == 0) = true
    · simp only [hk, if_true, Option.some.injEq] at h
      subst h
      cases fuel' with
      | zero => omega
      | succ m => simp [reduceWith, hk]
    · simp only [hk] at h
      exact ih _ _ h fuel' hf

/-! ### tables of the 30-bit prime field -/

def sqPassM (m : Nat) : List Nat → List Nat → Bool
  | p :: ps, c0 :: c1 :: cs => (c0 * c0 % m == p) && (c1 * c1 % m == (m - p) % m) && sqPassM m ps cs
  | _, [] => true
  | _, _ => false

def invPassM (m : Nat) : List Nat → List Nat → Bool
  | a :: as, b :: bs => (a * b % m == 1) && decide (a < m) && decide (b < m) && invPassM m as bs
  | [], [] => true
  | _, _ => false

/-- ψ² relations down the tree, pointwise inverses, canonical entries, ψ^1024 = −1, and every n·n⁻¹ = 1 -/
def u32TablesOK : Bool :=
  let m := 1073754113
  (Gen.p == m) &&
  (Gen.u32PsiRev.getD 1 0 * Gen.u32PsiRev.getD 1 0 % m == m - 1) &&
  sqPassM m (Gen.u32PsiRev.drop 1) (Gen.u32PsiRev.drop 2) && invPassM m Gen.u32PsiRev Gen.u32PsiInvRev &&
  (Gen.u32PsiRev.length == 1024) && (Gen.u32PsiRev.getD 0 0 == 1) &&
  (Gen.u32PsiRev.getD 512 0 ^ 1024 % m == m - 1) &&
  (Gen.u32Ninv.map (·.1) == [2, 4, 8, 16, 32, 64, 128, 256, 512, 1024]) &&
  Gen.u32Ninv.all fun (n, c) => n * c % m == 1 && decide (c < m)

set_option maxRecDepth 100000 in
theorem u32_tables_consistent : u32TablesOK = true := by decide +kernel

/-- exactness window: a product whose coefficients are below p/2 in magnitude is recovered exactly from its
    residues mod p by the balanced lift (2^24-bounded inputs at n ≤ 1024 with quotients below 2^5·… stay inside) -/
theorem balanced_lift_exact (x : Int) (h : -536877056 ≤ x ∧ x ≤ 536877056) :
    let r := x % 1073754113
    (if r > 536877056 then r - 1073754113 else r) = x := by
  intro r
  simp only [r]
  omega

/-! ### non-vacuity -/
example : ntruLhs 2 [1, 2] [3, 1] [5, 7] [11, 13] = ntruLhs 2 [1, 2] [3, 1]
    (babaiStep 2 [1, 2] [3, 1] ([5, 7], [11, 13]) [2, -1]).1 (babaiStep 2 [1, 2] [3, 1] ([5, 7], [11, 13]) [2, -1]).2 := by decide

end Falcon.Props.C17
