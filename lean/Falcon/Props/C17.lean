import Falcon.Lemmas.BabaiAlg
import Falcon.Lemmas.Karatsuba
import Falcon.Model.Zp
import Falcon.Lemmas.ZpZMod
import Falcon.Lemmas.ZpProduct
import Falcon.Lemmas.BabaiIdem
import Falcon.Lemmas.BabaiMultiple
import Falcon.Lemmas.NttBreadthFirst

/-!
# C17 — Babai size reduction preserves the NTRU equation; the 32-bit path multiplies exactly

* ring part (all n, all inputs, every quotient the floating-point code may produce): a reduction step
  (F, G) ↦ (F − k⋆f, G − k⋆g) and the whole loop leave f⋆G − g⋆F unchanged in Z[X]/(X^n+1);
* the loop stops exactly when its quotient is zero, so a second run on its result is the identity;
* the 30-bit-prime tables used by the multi-modular path are consistent (kernel evaluation over the
  tables re-extracted from fast_fft.rs).
Agreement of the two floating-point quotient computations (32-bit vs. big-integer path) is not proved; both
functions are run on the same inputs on every check and compared.
-/
namespace Falcon.Props.C17
open Falcon Falcon.RingZ

/-- one reduction step preserves f⋆G − g⋆F, at every root of X^n+1 in every commutative ring (in
    particular in Z[X]/(X^n+1) itself), for every quotient polynomial k -/
theorem step_preserves_ntru {R : Type} [CommRing R] (n : Nat) (hn : 0 < n) (ρ : R) (hρ : ρ ^ n = -1)
    (f g cF cG k : List Int) (hf : f.length = n) (hg : g.length = n) (hF : cF.length = n) (hG : cG.length = n) :
    ev (ntruLhs n f g (babaiStep n f g (cF, cG) k).1 (babaiStep n f g (cF, cG) k).2) ρ = ev (ntruLhs n f g cF cG) ρ :=
  babaiStep_invariant n hn ρ hρ f g cF cG k hf hg hF hG

/-- so does the whole loop, whatever sequence of quotients the floating-point computation supplies -/
theorem reduction_preserves_ntru {R : Type} [CommRing R] (n : Nat) (hn : 0 < n) (ρ : R) (hρ : ρ ^ n = -1)
    (f g : List Int) (hf : f.length = n) (hg : g.length = n) (ks : List (List Int)) (cF cG : List Int)
    (hF : cF.length = n) (hG : cG.length = n) :
    ev (ntruLhs n f g (babaiRun n f g ks (cF, cG)).1 (babaiRun n f g ks (cF, cG)).2) ρ = ev (ntruLhs n f g cF cG) ρ :=
  babaiRun_invariant n hn ρ hρ f g hf hg ks cF cG hF hG

/-- … as coefficient lists: the reduction leaves f⋆G − g⋆F in ℤ[X]/(Xⁿ+1) unchanged coefficient for coefficient
    (integer lists of length n are determined by their values at the roots of Xⁿ+1, `RingZ.ev_ext`) -/
theorem reduction_preserves_ntru_exact (n : Nat) (hn : 0 < n)
    (f g : List Int) (hf : f.length = n) (hg : g.length = n) (ks : List (List Int)) (cF cG : List Int)
    (hF : cF.length = n) (hG : cG.length = n) :
    ntruLhs n f g (babaiRun n f g ks (cF, cG)).1 (babaiRun n f g ks (cF, cG)).2 = ntruLhs n f g cF cG := by
  have hl : ∀ a b : List Int, a.length = n → b.length = n → (ntruLhs n f g a b).length = n := by
    intro a b ha hb
    unfold ntruLhs
    rw [subL_length _ _ (by rw [negacyc_length n hn f b hb, negacyc_length n hn g a ha]), negacyc_length n hn f b hb]
  obtain ⟨l1, l2⟩ := babaiRun_lengths n hn f g hf hg ks cF cG hF hG
  apply ev_ext n hn _ _ (hl _ _ l1 l2) (hl _ _ hF hG)
  intro R _ ρ hρ
  exact babaiRun_invariant n hn ρ hρ f g hf hg ks cF cG hF hG

/-- the step as math.rs computes it (`k.karatsuba(f).reduce_by_cyclotomic(n)`) is the modelled step, for n = 2^j -/
theorem babai_step_as_coded (j : Nat) (f g q : List Int) (FG : List Int × List Int) (hf : f.length = 2 ^ j)
    (hg : g.length = 2 ^ j) (hq : q.length = 2 ^ j) :
    babaiStepImpl (2 ^ j) f g FG q = babaiStep (2 ^ j) f g FG q := babaiStepImpl_eq j f g q FG hf hg hq

/-- the loop with the quotient as a (deterministic) function of the current pair -/
def reduceWith (n : Nat) (f g : List Int) (kOf : List Int × List Int → List Int) :
    Nat → List Int × List Int → Option (List Int × List Int)
  | 0, _ => none                                   -- round limit reached (the code returns Err)
  | fuel + 1, FG =>
    let k := kOf FG
    if k.all (· == 0) then some FG else reduceWith n f g kOf fuel (babaiStep n f g FG k)

/-- **idempotence**: the exit condition *is* "the quotient of the result is zero", hence reducing a reduced
    pair changes nothing -/
theorem reduce_idempotent (n : Nat) (f g : List Int) (kOf : List Int × List Int → List Int) :
    ∀ (fuel : Nat) (FG FG' : List Int × List Int), reduceWith n f g kOf fuel FG = some FG' →
      ∀ fuel', 0 < fuel' → reduceWith n f g kOf fuel' FG' = some FG' := by
  intro fuel
  induction fuel with
  | zero => intro FG FG' h; simp [reduceWith] at h
  | succ fuel ih =>
    intro FG FG' h fuel' hf
    simp only [reduceWith] at h
    by_cases hk : (kOf FG).all (· == 0) = true
    · simp only [hk, if_true, Option.some.injEq] at h
      subst h
      cases fuel' with
      | zero => omega
      | succ m => simp [reduceWith, hk]
    · simp only [hk] at h
      exact ih _ _ h fuel' hf

/-! ### tables of the 30-bit prime field -/

def sqPassM (m : Nat) : List Nat → List Nat → Bool
  | p :: ps, c0 :: c1 :: cs => (c0 * c0 % m == p) && (c1 * c1 % m == (m - p) % m) && sqPassM m ps cs
  | _, [] => true
  | _, _ => false

def invPassM (m : Nat) : List Nat → List Nat → Bool
  | a :: as, b :: bs => (a * b % m == 1) && decide (a < m) && decide (b < m) && invPassM m as bs
  | [], [] => true
  | _, _ => false

/-- the Z_p forward transform of the model is the breadth-first loop nest of the Rust code (stage with m blocks, twiddle
    `psi_rev[m + i]` for block i), for every n = 2^d -/
theorem zp_ntt_is_the_breadth_first_loop_nest (d : Nat) (a : List Nat) (ha : a.length = 2 ^ d) :
    Zp.ntt d a = FftFlt.nttBF Zp.zpOps Zp.T d a := Zp.ntt_eq_BF d a ha

theorem zp_intt_is_the_breadth_first_loop_nest (d : Nat) (a : List Nat) (ha : a.length = 2 ^ d) :
    Zp.inttRec d 1 a = FftFlt.inttBF Zp.zpOps Zp.TI d a := Zp.inttRec_eq_BF d a ha

/-- **size reduction changes (F, G) only by an integer-polynomial multiple of (f, g)** — the property's sentence, on the
    big-integer reduction as modelled (floating-point quotients included, whatever they are): the loop returns
    (F − K⋆f, G − K⋆g) for one integer polynomial K, coefficient for coefficient, for every n = 2^j and every input -/
theorem model_babai_reduce_changes_by_a_multiple (j size : Nat) (f g : List Int) (hf : f.length = 2 ^ j) (hg : g.length = 2 ^ j)
    (fStar gStar den : List FftFlt.C) (hfs : fStar.length = 2 ^ j) (hgs : gStar.length = 2 ^ j) (hden : den.length = 2 ^ j)
    (fuel : Nat) (cF cG : List Int) (h1 : cF.length = 2 ^ j) (h2 : cG.length = 2 ^ j) :
    ∃ K : List Int, K.length = 2 ^ j ∧
      (Keygen.babaiBigLoop (2 ^ j) size f g fStar gStar den fuel cF cG).2.1 = RingZ.subL cF (RingZ.negacyc (2 ^ j) K f) ∧
      (Keygen.babaiBigLoop (2 ^ j) size f g fStar gStar den fuel cF cG).2.2 = RingZ.subL cG (RingZ.negacyc (2 ^ j) K g) :=
  Keygen.babaiBigLoop_multiple j size f g hf hg fStar gStar den hfs hgs hden fuel cF cG h1 h2

/-- **a second reduction is the identity, for the reductions as modelled** (the floating-point quotient computation
    included, bit for bit what the Rust code does): if `babai_reduce_bigint` returns Ok with (F', G'), reducing (F', G')
    again returns Ok with the same pair -/
theorem model_babai_reduce_bigint_idempotent (f g cF cG : List Int) (h : (Keygen.babaiBig f g cF cG).1 = true) :
    Keygen.babaiBig f g (Keygen.babaiBig f g cF cG).2.1 (Keygen.babaiBig f g cF cG).2.2 =
      (true, (Keygen.babaiBig f g cF cG).2.1, (Keygen.babaiBig f g cF cG).2.2) :=
  Keygen.babaiBig_idempotent f g cF cG h

/-- … and the same for `babai_reduce_i32` (Z_p transforms, i32 arithmetic), in both build modes -/
theorem model_babai_reduce_i32_idempotent (chk : Bool) (f g cF cG a b : List Int)
    (h : Keygen.babaiI32 chk f g cF cG = .ok (true, a, b)) : Keygen.babaiI32 chk f g a b = .ok (true, a, b) :=
  Keygen.babaiI32_idempotent chk f g cF cG a b h

/-- ψ² relations down the tree, pointwise inverses, canonical entries, ψ^1024 = −1, and every n·n⁻¹ = 1 -/
def u32TablesOK : Bool :=
  let m := 1073754113
  (Gen.p == m) &&
  (Gen.u32PsiRev.getD 1 0 * Gen.u32PsiRev.getD 1 0 % m == m - 1) &&
  sqPassM m (Gen.u32PsiRev.drop 1) (Gen.u32PsiRev.drop 2) && invPassM m Gen.u32PsiRev Gen.u32PsiInvRev &&
  (Gen.u32PsiRev.length == 1024) && (Gen.u32PsiRev.getD 0 0 == 1) &&
  (Gen.u32PsiRev.getD 512 0 ^ 1024 % m == m - 1) &&
  (Gen.u32Ninv.map (·.1) == [2, 4, 8, 16, 32, 64, 128, 256, 512, 1024]) &&
  Gen.u32Ninv.all fun (n, c) => n * c % m == 1 && decide (c < m)

set_option maxRecDepth 100000 in
theorem u32_tables_consistent : u32TablesOK = true := by decide +kernel

/-- exactness window: a product whose coefficients are below p/2 in magnitude is recovered exactly from its
    residues mod p by the balanced lift (2^24-bounded inputs at n ≤ 1024 with quotients below 2^5·… stay inside) -/
theorem balanced_lift_exact (x : Int) (h : -536877056 ≤ x ∧ x ≤ 536877056) :
    let r := x % 1073754113
    (if r > 536877056 then r - 1073754113 else r) = x := by
  intro r
  simp only [r]
  omega

/-! ### non-vacuity -/
example : ntruLhs 2 [1, 2] [3, 1] [5, 7] [11, 13] = ntruLhs 2 [1, 2] [3, 1]
    (babaiStep 2 [1, 2] [3, 1] ([5, 7], [11, 13]) [2, -1]).1 (babaiStep 2 [1, 2] [3, 1] ([5, 7], [11, 13]) [2, -1]).2 := by decide

/-! ### the 32-bit path multiplies exactly: NTT multiplication in Z_p[X]/(X^n+1) (the C11 development at p) -/

section ZpNtt
open Falcon.Zp

private theorem inv_hyp (d : Nat) (hd : d ≤ 10) :
    ∀ e, e < d → ∀ j, 1 * 2 ^ e ≤ j → j < (1 + 1) * 2 ^ e → T' j * TI' j = 1 := by
  intro e he j _ h2
  have hp : 2 ^ e ≤ 2 ^ 9 := Nat.pow_le_pow_right (by decide) (by omega)
  exact T'_inv j (by omega)

private theorem scale_back (d v : Nat) (hv : 2 ^ d * v % 1073754113 = 1) (l : List Fp) :
    (l.map (((2 : Fp) ^ d) * ·)).map (· * c v) = l := by
  have h1 : ((2 : Fp) ^ d) * c v = 1 := by
    have : c (2 ^ d * v % 1073754113) = c 1 := by rw [hv]
    rw [c_of_mod] at this
    simpa [c] using this
  rw [List.map_map]
  conv_rhs => rw [← List.map_id l]
  apply List.map_congr_left
  intro x _
  simp only [Function.comp, id]
  calc (2 : Fp) ^ d * x * c v = x * ((2 : Fp) ^ d * c v) := by ring
    _ = x := by rw [h1, mul_one]

private theorem finish (d v : Nat) (X : List Nat) (want : List Nat)
    (hw : ∀ x ∈ want, x < 1073754113)
    (h : ((inttRec d 1 X).map (mul · v)).map c = want.map c) :
    (inttRec d 1 X).map (mul · v) = want := by
  apply map_c_inj _ _ _ hw h
  intro x hx
  simp only [List.mem_map] at hx
  obtain ⟨y, _, rfl⟩ := hx
  exact Nat.mod_lt _ (by decide)

/-- **round trip in Z_p**: the inverse transform of the forward transform is the identity -/
theorem zp_intt_ntt (d : Nat) (hd : d ≤ 10) (hd1 : 1 ≤ d) (a : List Nat) (hl : a.length = 2 ^ d) (hc : ∀ x ∈ a, x < 1073754113) :
    intt d (ntt d a) = .ok a := by
  obtain ⟨v, hv1, hv2, _⟩ := ninv_spec d hd hd1
  have hlen : (nttRec d 1 a).length = 2 ^ d := nttRec_length d 1 a hl
  have hv1' : List.lookup (2 ^ d) Gen.u32Ninv = some v := hv1
  simp only [intt, ntt, hlen, hv1']
  congr 1
  apply finish d v _ a hc
  rw [List.map_map]
  have : (c ∘ fun x => mul x v) = (fun y => y * c v) ∘ c := by funext x; simp [c_mul]
  rw [this, ← List.map_map, c_inttRec, c_nttRec,
    NttG.intt_ntt T' TI' d 1 (a.map c) (by simpa using hl) (inv_hyp d hd), scale_back d v hv2]

/-- **multiplication in Z_p**: the inverse transform of the pointwise product of the transforms is the
    negacyclic product a ⋆ b in Z_p[X]/(X^n+1), p = 1073754113 (the field of `babai_reduce_i32`) -/
theorem zp_ntt_mul_exact (d : Nat) (hd : d ≤ 10) (hd1 : 1 ≤ d) (a b : List Nat)
    (hla : a.length = 2 ^ d) (hlb : b.length = 2 ^ d) :
    intt d (hadamard (ntt d a) (ntt d b)) = .ok (negacyc (2 ^ d) a b) := by
  obtain ⟨v, hv1, hv2, _⟩ := ninv_spec d hd hd1
  have hA : (a.map c).length = 2 ^ d := by simpa using hla
  have hB : (b.map c).length = 2 ^ d := by simpa using hlb
  have hna := nttRec_length d 1 a hla
  have hnb := nttRec_length d 1 b hlb
  have hlen : (hadamard (nttRec d 1 a) (nttRec d 1 b)).length = 2 ^ d := by
    simp [hadamard, List.length_zipWith, hna, hnb]
  have hv1' : List.lookup (2 ^ d) Gen.u32Ninv = some v := hv1
  simp only [intt, ntt, hlen, hv1']
  congr 1
  apply finish d v _ _ (negacyc_lt _ a b)
  have hn : 0 < 2 ^ d := Nat.pow_pos (by decide)
  have hT := tableOK d hd
  -- the transform of the product
  have key : (hadamard (nttRec d 1 a) (nttRec d 1 b)).map c =
      NttG.nttRec T' d 1 (NttG.negacyc (2 ^ d) (a.map c) (b.map c)) := by
    rw [hadamard_c, c_nttRec, c_nttRec,
      NttG.ntt_eq_eval T' d 1 _ (le_refl 1) hT hA, NttG.ntt_eq_eval T' d 1 _ (le_refl 1) hT hB,
      zipWith_mul_map,
      NttG.ntt_eq_eval T' d 1 _ (le_refl 1) hT (NttG.negacyc_length (2 ^ d) hn _ _ hB)]
    apply List.map_congr_left
    intro ρ hρ
    have hp := NttG.roots_pow T' d 1 (le_refl 1) hT ρ hρ
    have hc1 : NttG.cst T' 1 = -1 := by simp [NttG.cst]
    rw [hc1] at hp
    exact (NttG.evalL_negacyc (2 ^ d) hn ρ hp _ _ hB).symm
  rw [List.map_map]
  have : (c ∘ fun x => mul x v) = (fun y => y * c v) ∘ c := by funext x; simp [c_mul]
  rw [this, ← List.map_map, c_inttRec, key,
    NttG.intt_ntt T' TI' d 1 _ (NttG.negacyc_length (2 ^ d) hn _ _ hB) (inv_hyp d hd),
    scale_back d v hv2, c_negacyc]


/-- hence the products k⋆f, k⋆g that `babai_reduce_i32` forms through the Z_p transform are the exact integer
    products whenever their coefficients are below p/2 in magnitude (`balanced_lift_exact`): the residue vector is
    the negacyclic product mod p, and the balanced lift of a residue of x with |x| ≤ 536877056 is x -/
example : Zp.intt 1 (Zp.hadamard (Zp.ntt 1 [3, 5]) (Zp.ntt 1 [7, 11])) = .ok (Zp.negacyc 2 [3, 5] [7, 11]) := by decide

/-- **the 32-bit path multiplies exactly inside its window**: for k, f with entries strictly between −p and p whose
    integer product k⋆f has all coefficients within ±(p−1)/2, the model of what `babai_reduce_i32` does — `U32Field::new`
    on every coefficient, forward transforms, pointwise product, inverse transform, `balanced_value` — returns exactly
    k⋆f over ℤ, without overflow, in both build modes, for every n = 2…1024 -/
theorem zp_product_is_the_integer_product (chk : Bool) (d : Nat) (hd : d ≤ 10) (hd1 : 1 ≤ d) (k f : List Int)
    (lk : k.length = 2 ^ d) (lf : f.length = 2 ^ d)
    (hk : ∀ x ∈ k, -1073754113 < x ∧ x < 1073754113) (hf : ∀ x ∈ f, -1073754113 < x ∧ x < 1073754113)
    (hb : ∀ x ∈ RingZ.negacyc (2 ^ d) k f, -536877056 ≤ x ∧ x ≤ 536877056) :
    ∃ kp fp r, k.mapM (Zp.new chk) = .ok kp ∧ f.mapM (Zp.new chk) = .ok fp ∧
      Zp.intt d (Zp.hadamard (Zp.ntt d kp) (Zp.ntt d fp)) = .ok r ∧
      r.mapM (Zp.balanced chk) = .ok (RingZ.negacyc (2 ^ d) k f) := by
  have hn : 0 < 2 ^ d := Nat.pow_pos (by decide)
  refine ⟨Zp.toZp k, Zp.toZp f, Zp.toZp (RingZ.negacyc (2 ^ d) k f), ?_, ?_, ?_, ?_⟩
  · exact Zp.mapM_ok _ _ k (fun x hx => Zp.new_exact chk x (hk x hx).1 (hk x hx).2)
  · exact Zp.mapM_ok _ _ f (fun x hx => Zp.new_exact chk x (hf x hx).1 (hf x hx).2)
  · rw [zp_ntt_mul_exact d hd hd1 _ _ (by simp [Zp.toZp, lk]) (by simp [Zp.toZp, lf]), Zp.negacyc_toZp _ hn k f lf]
  · have := Zp.mapM_ok (Zp.balanced chk)
      (fun (a : Nat) => if (a : Int) > 536877056 then (a : Int) - 1073754113 else (a : Int))
      (Zp.toZp (RingZ.negacyc (2 ^ d) k f)) (fun a ha => Zp.balanced_exact chk a (Zp.toZp_lt _ a ha))
    rw [this]
    refine congrArg Res.ok ?_
    simp only [Zp.toZp, List.map_map]
    conv => rhs; rw [← List.map_id (RingZ.negacyc (2 ^ d) k f)]
    apply List.map_congr_left
    intro x hx
    have hlift := balanced_lift_exact x (hb x hx)
    simp only [Function.comp, id] at hlift ⊢
    have h0 : 0 ≤ x % 1073754113 := Int.emod_nonneg x (by decide)
    rw [Int.toNat_of_nonneg h0]
    exact hlift

end ZpNtt

end Falcon.Props.C17
