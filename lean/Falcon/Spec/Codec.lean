/-
  Bit-level reference codec: Algorithms 17 (Compress) and 18 (Decompress) of the Falcon specification
  on lists of bits, plus the magnitude cap of this library (a coefficient whose unary run reaches `cap`
  zeros is rejected; the specification itself has no cap).  This is the *meaning* of C07.
-/
namespace Falcon.Spec

/-- the 7 low bits of `a`, most significant first -/
def low7 (a : Nat) : List Bool :=
  [a / 64 % 2 == 1, a / 32 % 2 == 1, a / 16 % 2 == 1, a / 8 % 2 == 1, a / 4 % 2 == 1, a / 2 % 2 == 1, a % 2 == 1]

/-- encoding of one coefficient: sign, 7 low bits, `|c| >> 7` zeros, a one -/
def encCoef (c : Int) : List Bool :=
  (decide (c < 0)) :: low7 (c.natAbs % 128) ++ List.replicate (c.natAbs / 128) false ++ [true]

def encBits (v : List Int) : List Bool := v.flatMap encCoef

/-- Algorithm 17: `none` when the bits do not fit (or the vector is empty, as this library defines it) -/
def compressBits (v : List Int) (slen : Nat) : Option (List Bool) :=
  let bs := encBits v
  if v = [] ∨ bs.length > slen then none else some (bs ++ List.replicate (slen - bs.length) false)

def bitsToNat : List Bool → Nat
  | [] => 0
  | b :: bs => (if b then 1 else 0) * 2 ^ bs.length + bitsToNat bs

/-- read a unary run: number of zeros before the first one (at most `cap - 1`), and the rest -/
def readUnary (cap : Nat) : List Bool → Nat → Option (Nat × List Bool)
  | [], _ => none
  | true :: rest, k => some (k, rest)
  | false :: rest, k => if k + 1 ≥ cap then none else readUnary cap rest (k + 1)

/-- decode one coefficient from the front of the bit list -/
def decCoef (cap : Nat) (bs : List Bool) : Option (Int × List Bool) :=
  match bs with
  | s :: b6 :: b5 :: b4 :: b3 :: b2 :: b1 :: b0 :: rest =>
    match readUnary cap rest 0 with
    | none => none
    | some (k, rest') =>
      let low := bitsToNat [b6, b5, b4, b3, b2, b1, b0]
      let mag := k * 128 + low
      if s && mag == 0 then none            -- "-0" is not a valid encoding
      else some (if s then -(mag : Int) else (mag : Int), rest')
  | _ => none

/-- Algorithm 18 with the cap: decode `n` coefficients, then require all remaining bits to be zero -/
def decBits (cap : Nat) : Nat → List Bool → Option (List Int)
  | 0, rest => if rest.all (· == false) then some [] else none
  | n + 1, bs =>
    match decCoef cap bs with
    | none => none
    | some (c, rest) =>
      match decBits cap n rest with
      | none => none
      | some cs => some (c :: cs)

/-- bytes to bits, most significant bit first -/
def unpack (x : List Nat) : List Bool :=
  x.flatMap fun b => [b / 128 % 2 == 1, b / 64 % 2 == 1, b / 32 % 2 == 1, b / 16 % 2 == 1,
                      b / 8 % 2 == 1, b / 4 % 2 == 1, b / 2 % 2 == 1, b % 2 == 1]

def pack : List Bool → List Nat
  | b7 :: b6 :: b5 :: b4 :: b3 :: b2 :: b1 :: b0 :: rest => bitsToNat [b7, b6, b5, b4, b3, b2, b1, b0] :: pack rest
  | _ => []

/-- the reference `decompress(x, n)` (n ≥ 1) -/
def decompressRef (cap : Nat) (x : List Nat) (n : Nat) : Option (List Int) :=
  if n = 0 then none else decBits cap n (unpack x)

/-- the reference `compress(v, L)` -/
def compressRef (v : List Int) (byteLength : Nat) : Option (List Nat) :=
  (compressBits v (8 * byteLength)).map pack

end Falcon.Spec
