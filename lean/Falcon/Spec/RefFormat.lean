/-
  The key formats of the Falcon reference implementation (PQClean `codec.c`, `pqclean.c`): accumulator-based
  transcriptions of `modq_decode`, `trim_i8_decode` and the header / length checks of the reference
  `crypto_sign_*` entry points.  This is the *reference side* of C16; it is compared with the model of
  falcon.rs (`Falcon.KeyCodec`) on every run and, where proved, by theorem.
-/
namespace Falcon.RefFormat

/-- `modq_decode`: 14-bit big-endian fields, each < 12289; the unused low bits of the accumulator must be 0 -/
def modqDecode (logn : Nat) (buf : List Nat) : Option (List Nat) :=
  let n := 2 ^ logn
  let inLen := (n * 14 + 7) / 8
  if inLen > buf.length then none else
    let rec go : List Nat → Nat → Nat → List Nat → Option (List Nat)
      | bytes, acc, accLen, out =>
        if out.length ≥ n then
          if acc % 2 ^ accLen ≠ 0 then none else some out.reverse
        else
          match bytes with
          | [] => none
          | b :: rest =>
            let acc := (acc * 256 + b) % 2 ^ 32
            let accLen := accLen + 8
            if accLen ≥ 14 then
              let accLen := accLen - 14
              let w := (acc / 2 ^ accLen) % 16384
              if w ≥ 12289 then none else go rest acc accLen (w :: out)
            else go rest acc accLen out
    go (buf.take inLen) 0 0 []

/-- `trim_i8_decode`: `bits`-wide two's-complement fields; the value −2^(bits−1) is forbidden -/
def trimI8Decode (logn bits : Nat) (buf : List Nat) : Option (List Int) :=
  let n := 2 ^ logn
  let inLen := (n * bits + 7) / 8
  if inLen > buf.length then none else
    -- inner `while (acc_len >= bits && u < n)`
    let rec inner : Nat → Nat → Nat → List Int → Option (Nat × List Int)
      | 0, accLen, _, out => some (accLen, out)
      | fuel + 1, accLen, acc, out =>
        if accLen ≥ bits ∧ out.length < n then
          let accLen := accLen - bits
          let w := (acc / 2 ^ accLen) % 2 ^ bits
          if w = 2 ^ (bits - 1) then none
          else
            let v : Int := if w ≥ 2 ^ (bits - 1) then (w : Int) - (2 : Int) ^ bits else (w : Int)
            inner fuel accLen acc (v :: out)
        else some (accLen, out)
    let rec go : List Nat → Nat → Nat → List Int → Option (List Int)
      | bytes, acc, accLen, out =>
        if out.length ≥ n then
          if acc % 2 ^ accLen ≠ 0 then none else some out.reverse
        else
          match bytes with
          | [] => none
          | b :: rest =>
            let acc := (acc * 256 + b) % 2 ^ 32
            match inner 9 (accLen + 8) acc out with
            | none => none
            | some (accLen, out) => go rest acc accLen out
    go (buf.take inLen) 0 0 []

def maxFgBits (logn : Nat) : Nat := [0, 8, 8, 8, 8, 8, 7, 7, 6, 6, 5].getD logn 0
def maxFGBits : Nat := 8

/-- the reference's public key import (`crypto_sign_verify`): fixed length, header 0x00 + logn, modq fields -/
def pkDecode (logn : Nat) (pk : List Nat) : Option (List Nat) :=
  if pk.length ≠ 1 + (2 ^ logn * 14) / 8 then none
  else if pk.head? ≠ some logn then none
  else modqDecode logn (pk.drop 1)

/-- the reference's secret key import (`do_sign`): fixed length, header 0x50 + logn, f, g, F -/
def skDecode (logn : Nat) (sk : List Nat) : Option (List Int × List Int × List Int) :=
  let n := 2 ^ logn
  let fb := maxFgBits logn
  let lf := (n * fb + 7) / 8
  let lF := (n * maxFGBits + 7) / 8
  if sk.length ≠ 1 + lf + lf + lF then none
  else if sk.head? ≠ some (0x50 + logn) then none
  else
    match trimI8Decode logn fb (sk.drop 1), trimI8Decode logn fb (sk.drop (1 + lf)), trimI8Decode logn maxFGBits (sk.drop (1 + lf + lf)) with
    | some f, some g, some cF => some (f, g, cF)
    | _, _, _ => none

end Falcon.RefFormat
