/-
  The signature decoder of the Falcon reference implementation (PQClean `codec.c`, `comp_decode`): an accumulator-based
  transcription.  This is the *reference side* of C16 for signatures; `Lemmas/RefSigEq` relates it to the bit-level
  Algorithm 18 (`Spec.decBits`) with the reference's magnitude cap (|x_i| ≤ 2047: a unary run of 16 zeros is refused).

  ```c
  for (u = 0; u < n; u ++) {
      if (v >= max_in_len) return 0;
      acc = (acc << 8) | (uint32_t)buf[v ++];
      b = acc >> acc_len;  s = b & 128;  m = b & 127;
      for (;;) {
          if (acc_len == 0) { if (v >= max_in_len) return 0; acc = (acc << 8) | (uint32_t)buf[v ++]; acc_len = 8; }
          acc_len --;
          if (((acc >> acc_len) & 1) != 0) break;
          m += 128;  if (m > 2047) return 0;
      }
      if (s && m == 0) return 0;
      x[u] = s ? -m : m;
  }
  if ((acc & ((1u << acc_len) - 1u)) != 0) return 0;
  return v;
  ```
-/
namespace Falcon.RefSig

/-- the inner `for (;;)`: `z` zeros read so far (m = low + 128·z); result = (z, acc, acc_len, unread bytes) -/
def unary (low : Nat) : Nat → Nat → Nat → Nat → List Nat → Option (Nat × Nat × Nat × List Nat)
  | 0, _, _, _, _ => none
  | fuel + 1, z, acc, al, bytes =>
    let refill : Option (Nat × Nat × List Nat) :=
      if al = 0 then
        match bytes with
        | [] => none
        | b :: rest => some ((acc * 256 + b) % 2 ^ 32, 8, rest)
      else some (acc, al, bytes)
    match refill with
    | none => none
    | some (acc, al, bytes) =>
      let al := al - 1
      if (acc / 2 ^ al) % 2 ≠ 0 then some (z, acc, al, bytes)
      else if low + 128 * (z + 1) > 2047 then none
      else unary low fuel (z + 1) acc al bytes

/-- the outer loop: `cnt` coefficients still to read; result = (coefficients, unread bytes) -/
def go : Nat → Nat → Nat → List Nat → List Int → Option (List Int × List Nat)
  | 0, acc, al, bytes, out => if acc % 2 ^ al ≠ 0 then none else some (out.reverse, bytes)
  | cnt + 1, acc, al, bytes, out =>
    match bytes with
    | [] => none
    | b :: rest =>
      let acc := (acc * 256 + b) % 2 ^ 32
      let w := (acc / 2 ^ al) % 256
      let s := w / 128
      let low := w % 128
      match unary low 17 0 acc al rest with
      | none => none
      | some (z, acc, al, rest) =>
        let m := low + 128 * z
        if s ≠ 0 ∧ m = 0 then none
        else go cnt acc al rest ((if s ≠ 0 then -(m : Int) else (m : Int)) :: out)

/-- `comp_decode(x, logn, buf, len(buf))`: the coefficients and the number of bytes consumed (`none` = returns 0) -/
def compDecode (logn : Nat) (buf : List Nat) : Option (List Int × Nat) :=
  (go (2 ^ logn) 0 0 buf []).map fun r => (r.1, buf.length - r.2.length)

/-- the reference verifier's reading of a signature body in the variable-length format: all bytes consumed -/
def sigDecode (logn : Nat) (body : List Nat) : Option (List Int) :=
  match compDecode logn body with
  | some (x, v) => if v = body.length then some x else none
  | none => none

end Falcon.RefSig
