import Falcon.Driver.Ops
/- line-protocol driver: one op per line on stdin, one canonical line per op on stdout.
   `falcon-model --chk true|false` selects the build mode the model mimics. -/
open Falcon.Driver

partial def loop (chk : Bool) (h out : IO.FS.Stream) : IO Unit := do
  let line ← h.getLine
  if line.isEmpty then return ()
  let tok := (line.trimAscii.toString.splitOn " ").filter (· ≠ "")
  out.putStrLn (execOp chk tok)
  loop chk h out

def main (args : List String) : IO Unit := do
  let chk := match args with
    | ["--chk", "false"] => false
    | _ => true
  loop chk (← IO.getStdin) (← IO.getStdout)
